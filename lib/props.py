"""Per-property check definitions."""
import concurrent.futures as cf
import json
import os
import time

import vdriver as V
from vdriver import log

# --------------------------------------------------------------------------- engines
HIST = {
    "name": "hist",
    "units": [("hist_main.cpp", [])] + [("hist_simple.cpp", ["-DVK_LABEL=%d" % k]) for k in range(8)] +
             [("hist_multi.cpp", []), ("hist_weighted.cpp", [])],
}

REJECT = {
    "name": "reject",
    "units": [("reject_main.cpp", []), ("reject_other.cpp", [])] + [("reject_simple.cpp", ["-DVK_LABEL=%d" % k]) for k in (0, 1, 5, 6)],
}

SHAPE = {
    "name": "shape",
    "units": [("shape_main.cpp", []), ("shape_other.cpp", [])] + [("shape_simple.cpp", ["-DVK_LABEL=%d" % k]) for k in (0, 1, 3, 5, 6)] +
             [("shape_wctor.cpp", ["-DVK_WHICH=0"], "optional"), ("shape_wctor.cpp", ["-DVK_WHICH=1"], "optional")],
}

PATHS = {"name": "paths", "units": [("paths.cpp", [])]}

IO = {"name": "io", "units": [("io_main.cpp", [])] + [("io_text.cpp", ["-DVK_PART=%d" % k]) for k in range(5)] + [("io_bin.cpp", ["-DVK_PART=%d" % k]) for k in range(4)]}

ENGINES = {"hist": HIST, "reject": REJECT, "shape": SHAPE, "paths": PATHS, "io": IO}


ASSUME_COMMON = [
    "the g++ 12 / libstdc++ toolchain, AddressSanitizer and UBSan report what they are documented to report",
    "the reference model in harness/ (a std::map keyed by vertex pair) is itself correct; it was cross-checked by making each monitor fire on seeded breakages",
    "histories, graph sizes and label kinds are sampled, not exhausted: the verdict covers the executions counted above and nothing else",
]


def replay_dir(prop):
    return os.path.join(V.VERIF, "replays", prop)


def sample_list(samples, cap=4):
    out = []
    for s in samples[:cap]:
        if isinstance(s, dict) and "history" in s and isinstance(s["history"], list) and len(s["history"]) > 40:
            s = dict(s)
            s["history"] = s["history"][:40] + ["... (%d more calls)" % (len(s["history"]) - 40)]
        out.append(s)
    return out


# --------------------------------------------------------------------------- history-based checks
REJ = (" Every third history contains calls that must be rejected (an out-of-range index in either or both positions, a shrinking resize), usually "
       "followed by the resize that makes the index a vertex: the model ignores them")
HIST_PLAN = {
    # prop: (quick cases, thorough cases, rule, floors, level)
    "C01": dict(quick=42000, thorough=1400000,
                rule="seeded random call histories (8-80 calls; uniform / churn / re-add-after-bulk-removal generators; start sizes 0,1,2,3,5; "
                     "vertex arguments biased to existing edges, self-loops and recently touched vertices) on LabeledDirectedGraph<L> for "
                     "L in NoLabel,int,unsigned,double,char,string,struct,empty tag struct; after EVERY call all structural observers are compared with a set-of-pairs model."
                     "%s. A case is one history; distinct_nontrivial counts distinct sequences of model states among histories of >= 8 calls" % REJ,
                floors={"calls_total": 50000, "calls_removeVertexFromEdgeList": 500, "calls_clearEdges": 100, "calls_removeSelfLoops": 300,
                        "calls_resize": 300, "noop_exactness_checks": 5000, "obs_hasEdge": 500000, "rejected_calls_inside_histories": 15000,
                        "rejected_calls_followed_by_resize_making_the_index_valid": 5000}),
    "C02": dict(quick=42000, thorough=1400000,
                rule="as C01 on LabeledUndirectedGraph<L>; every call names its pair in a random orientation; model = set of unordered pairs; "
                     "observers additionally include getDegree with both self-loop conventions, getDegrees, both adjacency matrices (symmetry), "
                     "edges() yielding first<=second once per pair",
                floors={"calls_total": 50000, "calls_removeVertexFromEdgeList": 500, "calls_clearEdges": 100, "calls_removeSelfLoops": 300,
                        "noop_exactness_checks": 5000, "obs_hasEdge": 500000, "rejected_calls_inside_histories": 15000,
                        "rejected_calls_followed_by_resize_making_the_index_valid": 5000}),
    "C03": dict(quick=18000, thorough=300000,
                rule="random histories (with rejected calls as in C01) on labelled directed and undirected graphs (labels int,unsigned,double,char,string,struct,empty tag struct; every label value unique "
                     "per call so a stale label is never mistaken for the right one); after every call getEdgeLabel (throwing and non-throwing), "
                     "hasEdge(i,j,label) are compared for EVERY ordered pair with a map model; counters label_reads_after_* show reads of pairs "
                     "whose edge disappeared through each removal path",
                floors={"calls_total": 50000, "label_reads_after_removeEdge": 1000, "label_reads_after_removeSelfLoops": 300,
                        "label_reads_after_removeVertexFromEdgeList_as_source": 300, "label_reads_after_removeVertexFromEdgeList_as_destination": 300,
                        "label_reads_after_clearEdges": 300, "label_reads_after_recreation": 1000, "rejected_setEdgeLabel_on_missing_edge": 300,
                        "rejected_calls_inside_histories": 6000, "rejected_calls_followed_by_resize_making_the_index_valid": 2000}),
    "C04": dict(quick=30000, thorough=1000000,
                rule="random histories on DirectedMultigraph and UndirectedMultigraph mixing addEdge/addMultiedge/addReciprocal*/removeEdge/removeMultiedge/"
                     "setEdgeMultiplicity (0 included)/removeSelfLoops/removeVertexFromEdgeList/clearEdges/resize; after every call getEdgeMultiplicity for all "
                     "ordered pairs, hasEdge, getEdgeNumber, getTotalEdgeNumber, degrees and adjacency matrix are compared with a map pair->multiplicity",
                floors={"calls_total": 40000, "calls_setEdgeMultiplicity(0)": 200, "calls_removeMultiedge": 1000, "calls_clearEdges": 50,
                        "calls_removeVertexFromEdgeList": 300, "mult_reads_absent_pair": 50000, "rejected_calls_inside_histories": 10000,
                        "rejected_calls_followed_by_resize_making_the_index_valid": 3000}),
    "C05": dict(quick=12000, thorough=360000,
                rule="random histories on DirectedWeightedGraph and UndirectedWeightedGraph; two weight alphabets: exact dyadic k/8 (total weight must "
                     "match the model sum EXACTLY; half of these histories are scaled as a whole by 2^-67, 2^-300, 2^-1000 or 2^900, which keeps every weight and "
                     "partial sum exactly representable) and rounding (random doubles, tolerance 1e-9*(1+sum|w| ever added)); getEdgeWeight (both modes, both "
                     "orientations), getTotalWeight, getWeightMatrix and the structural observers compared after every call; one rounding-mode history in seven draws a third "
                     "of its weights from +-(0.5..0.99)*DBL_MAX while the sum of the weights present stays a finite double at every step; rejected calls as in C01",
                floors={"calls_total": 40000, "calls_setEdgeWeight": 2000, "total_weight_exact_comparisons": 10000, "total_weight_tolerance_comparisons": 10000,
                        "calls_clearEdges": 50, "calls_removeVertexFromEdgeList": 300, "rejected_calls_inside_histories": 4000,
                        "rejected_calls_followed_by_resize_making_the_index_valid": 1500, "calls_with_a_weight_above_half_of_DBL_MAX": 1500,
                        "exact_histories_scaled_by_a_power_of_two": 1500}),
    "C06": dict(quick=54000, thorough=1800000,
                rule="pairs of histories: A = random history; B = different random history followed by a shuffled repair sequence reaching the same "
                     "denoted graph; C = straight build in random order/orientation; copies by construction and assignment; a copy perturbed by exactly one "
                     "extra / missing / moved edge, one label / weight / multiplicity, or one vertex. For every pair the verdict == must give is computed from the two "
                     "graphs' OBSERVABLE state (size, hasEdge for every pair, value on every edge) and compared with a==b, b==a, a!=b, b!=a; the source of a mutated copy "
                     "must keep its exact observable state. All eight classes, seven label kinds",
                floors={"equality_checks_expected_equal": 20000, "equality_checks_expected_unequal": 8000, "pairs_where_a_history_removed_edges": 2000}),
    "C16": dict(quick=54000, thorough=1800000,
                rule="histories mixing forced and unforced insertions (same label for every copy of a pair), removeEdge and removeDuplicateEdges on the "
                     "simple/labelled classes - neighbour multisets, edges(), getEdgeNumber, adjacency matrix, hasEdge compared with a multiset model after "
                     "every call, and after each removeDuplicateEdges operator== against an unforced replay; forced insertions followed by "
                     "removeDuplicateEdges on the weighted and multigraph classes",
                floors={"calls_total": 40000, "calls_removeDuplicateEdges": 1500, "dedup_vs_unforced_replay_comparisons": 1500, "rejected_calls_inside_histories": 12000}),
}


def run_hist(prop, tier, seed):
    t0 = time.time()
    plan = HIST_PLAN[prop]
    binary = V.build_engine(HIST, "asan")
    cases = plan[tier]
    extra = [] if tier == "quick" else ["--x-maxlen", "160", "--x-maxn", "9"]   # thorough: histories up to 160 calls on up to 9 vertices
    res = V.run_sharded(prop, binary, extra, cases, seed, tier, V.NCPU, 900 if tier == "quick" else 14400, replay_dir(prop), tag="hist-" + prop)
    c = res.counters
    coverage = {
        "evaluations": int(cases),
        "distinct_nontrivial": res.n_distinct(),
        "rule": plan["rule"],
        "samples": sample_list(res.samples),
        "api_calls_executed": c.get("calls_total", 0),
        "distinct_model_states_visited": res.n_states(),
        "counters": {k: v for k, v in sorted(c.items())},
        "build": "g++ -O1 -fsanitize=address,undefined -fno-sanitize-recover=all -D_GLIBCXX_ASSERTIONS",
        "exhaustive": False,
    }
    return V.conclude(prop, tier, seed, "exploration", res, coverage, ASSUME_COMMON, plan["floors"], t0)


def run_c07(prop, tier, seed):
    t0 = time.time()
    binary = V.build_engine(REJECT, "asan")
    # 12 classes x 10 state variants per round
    cases = 12 * 10 * (10 if tier == "quick" else 150)
    res = V.run_sharded(prop, binary, [], cases, seed, tier, V.NCPU, 900 if tier == "quick" else 7200, replay_dir(prop), tag="reject",
                        isolate_args=["--x-isolate", "1"])
    c = res.counters
    coverage = {
        "evaluations": int(c.get("rejected_out_of_range_cells_executed", 0) + c.get("rejected_invalid_argument_cells_executed", 0)),
        "distinct_nontrivial": res.n_states(),
        "rule": "fault enumeration: {12 class instantiations: Labeled(Un)DirectedGraph<NoLabel|int|string|struct>, both multigraphs, both weighted graphs} x "
                "{every public member / subgraph extraction / path search taking a vertex index} x {first, second, both, both-equal argument position} x "
                "{size, size+1, UINT_MAX} x {every flag combination incl. force=true and defaulted flags}, each applied in 8 kinds of graph state "
                "(size 0, 1, 1 with loop, 3 empty, random non-empty, after a removal) with valid calls interleaved; plus resize(smaller), unforced setEdgeLabel / "
                "getEdgeLabel / getEdgeWeight on a missing edge. A cell is distinct by (class, entry, position, value, flags); distinct_nontrivial counts distinct cells. "
                "Oracle per cell: exact exception type, full state snapshot identical, graph == copy taken before; a cell that kills the process is "
                "re-run in a forked child and reported with its tuple",
        "samples": sample_list(res.samples),
        "distinct_graph_states": res.n_distinct(),
        "counters": {k: v for k, v in sorted(c.items())},
        "build": "g++ -O1 -fsanitize=address,undefined -fno-sanitize-recover=all -D_GLIBCXX_ASSERTIONS (any vector::operator[] past the end aborts)",
        "exhaustive": True,
    }
    floors = {"rejected_out_of_range_cells_executed": 50000, "rejected_invalid_argument_cells_executed": 500}
    if res.n_states() < 1500 and not res.viols:
        res.inconclusive = res.inconclusive or "only %d distinct cells executed" % res.n_states()
    return V.conclude(prop, tier, seed, "fault_enumeration", res, coverage, ASSUME_COMMON[:1] + [
        "out-of-bounds accesses are observable because _GLIBCXX_ASSERTIONS bounds-checks every std::vector::operator[] and ASan red-zones the rest",
        "the cell list in harness/reject_*.cpp was written from the public headers; an entry point added later is not covered until it is listed"], floors, t0)


SHAPE_PLAN = {
    "C08": dict(level="exploration",
                rule="every directed graph with loops on n<=3 vertices (n<=4 thorough: 65536 more) and every undirected graph with loops on n<=4 (n<=5 thorough), "
                     "each built in 5 insertion orders/orientations (as enumerated, reversed, 3 seeded shuffles), plus seeded random graphs on 5-12 vertices with "
                     "isolated prefixes/suffixes; on each, for all eight classes (labels NoLabel,int,string,struct): vertex range-for = 0..n-1; edges() by pre-increment, "
                     "post-increment (returned value = old position) and range-for give one sequence, twice; begin()==end() iff no edge; multiset of edges = model; "
                     "getInDegrees, getAdjacencyMatrix, getReversedGraph, getDirectedGraph, undirected-from-directed, text and binary writers and operator<< are "
                     "DEFINED (return normally; what they return is C01/C02/C09/C13/C14's verdict); then three enumerate-mutate-enumerate rounds per graph. distinct_nontrivial = distinct (graph, insertion order) pairs with at least one vertex",
                floors={"graphs_with_zero_vertices": 10, "graphs_without_edges": 40, "graphs_from_exhaustive_enumeration": 8000, "edge_iteration_steps": 100000,
                        "files_written": 10000, "conversions_checked": 5000, "graphs_with_a_past_of_removals_and_rebuilds": 5000, "rejected_calls_in_the_past_of_a_graph": 15000}),
    "C09": dict(level="exploration",
                rule="graph space of C08 x unique label per edge x label kinds NoLabel,int,string,struct: getReversedGraph vs independently built reverse (+ labels, "
                     "reverse twice == g); getDirectedGraph vs independent build (+labels) and u->d->u == u; undirected-from-directed pairs and label membership; each "
                     "of the eight classes constructed from vector, list, deque, forward_list, set and multiset of (labelled / weighted / multi) edges incl. a repeated "
                     "entry, compared with adding one at a time (size = 1+max index, 0 when empty); copy construction / assignment independent of the source. The "
                     "weighted edge-list constructors are compiled as separate units: failing to instantiate is reported as a violation. Also: unlabelled classes from "
                     "containers of (i,j,NoLabel) with a repeated pair; multigraph lists with a multiplicity of 2^31 .. UINT_MAX; assignment over non-empty graphs from "
                     "lvalues and temporaries and construction from a temporary; a fifth of the source graphs have a past (foreign edges removed again, rejected calls, "
                     "removeVertexFromEdgeList, clearEdges and a rebuild)",
                floors={"conversions_checked": 8000, "constructor_checks": 60000, "copy_checks": 8000, "label_reads": 50000, "weighted_constructor_checks": 5000,
                        "assignments_over_a_non_empty_graph_and_from_temporaries": 40000, "constructor_lists_with_a_multiplicity_of_2_to_the_31_or_more": 1500,
                        "graphs_with_a_past_of_removals_and_rebuilds": 5000}),
    "C10": dict(level="exploration",
                rule="for every directed graph on n<=3 (<=4 thorough) and undirected graph on n<=4 (<=5 thorough) and random graphs on 4-6 (4-7) vertices, with unique "
                     "labels (int,string,struct, and unlabelled): ALL 2^n vertex subsets S, inserted into the unordered_set in two orders. getSubgraph: size n, exactly "
                     "the induced edges with labels. getSubgraphWithRemap: |S| vertices, map domain = S, image = 0..|S|-1 injective, pulled-back edges and labels = "
                     "induced subgraph. distinct_nontrivial = distinct (graph, order) pairs; every one is checked against all its subsets. A quarter of the sources have "
                     "a past, a quarter carry forced duplicates (then only the set of connected pairs and the labels are held); a double label kind has NaN on a third "
                     "of its edges; a subgraph of a subgraph is the subgraph of the intersection; rejected calls between the valid ones",
                floors={"subsets_checked": 100000, "remap_bijection_checks": 100000, "label_reads": 100000, "source_graphs_carrying_forced_duplicates": 4000,
                        "edges_labelled_NaN": 8000, "subgraph_of_subgraph_checks": 100000, "graphs_with_a_past_of_removals_and_rebuilds": 4000}),
}


def run_shape(prop, tier, seed):
    import subprocess
    t0 = time.time()
    plan = SHAPE_PLAN[prop]
    binary = V.build_engine(SHAPE, "asan")
    total = int(subprocess.run([binary, "--prop", prop, "--tier", tier, "--mode", "count"], capture_output=True, text=True, env=dict(os.environ, **V.SAN_ENV)).stdout.strip())
    res = V.run_sharded(prop, binary, [], total, seed, tier, V.NCPU, 900 if tier == "quick" else 10800, replay_dir(prop), tag="shape-" + prop)
    if prop == "C09":
        for f in V.build_failures(binary):
            cls = "DirectedWeightedGraph" if "-DVK_WHICH=0" in f["defs"] else "UndirectedWeightedGraph"
            key = cls + "/edge-list-constructor/uninstantiable"
            os.makedirs(replay_dir(prop), exist_ok=True)
            rp = os.path.join(replay_dir(prop), key.replace("/", "_") + ".json")
            with open(rp, "w") as fh:
                json.dump({"property": prop, "key": key, "what": "harness/%s %s does not compile against the current headers: the documented constructor "
                           "%s(container of LabeledEdge<EdgeWeight>) cannot be instantiated" % (f["src"], " ".join(f["defs"]), cls), "compiler_output": f["output"]}, fh, indent=1)
            res.viols.append({"key": key, "detail": f["output"][-1500:], "replay": rp, "case": 0, "count": 1})
    c = res.counters
    coverage = {
        "evaluations": int(total),
        "distinct_nontrivial": res.n_distinct(),
        "rule": plan["rule"],
        "samples": sample_list(res.samples),
        "exhaustive_subspaces": "directed n<=%d, undirected n<=%d enumerated completely" % (c.get("exhaustive_directed_max_n_max", 0), c.get("exhaustive_undirected_max_n_max", 0)),
        "counters": {k: v for k, v in sorted(c.items())},
        "build": "g++ -O1 -fsanitize=address,undefined -fno-sanitize-recover=all -D_GLIBCXX_ASSERTIONS",
        "exhaustive": False,
    }
    return V.conclude(prop, tier, seed, plan["level"], res, coverage, ASSUME_COMMON, plan["floors"], t0)


PATHS_PLAN = {
    "C11": dict(level="exploration",
                rule="every directed graph with loops on n<=3 (n<=4 thorough) and undirected on n<=4 (n<=5), each in two insertion orders, seeded random graphs on 4-14 "
                     "vertices, and tie-rich families (layered, grid, complete DAG, clique with loops, complete bipartite, cycle with chords); for EVERY source (and "
                     "every destination): reference BFS distances; single predecessor is an in-neighbour one hop closer; all-predecessor list equals the set of such "
                     "in-neighbours without repeats (empty for source/unreachable); findGeodesics / FromVertex paths walked edge by edge with the right length, [s] for "
                     "the source, empty when unreachable; findAllGeodesics / FromVertex compared AS SETS with a brute-force enumeration of all shortest paths (no "
                     "duplicates, none missing). Searches run on a scan-counting wrapper graph type, so a non-terminating search is a verdict. A fifth of the graphs carry "
                     "forced duplicates of a third of their edges; shuffled-order graphs have two rejected calls in their past; ten (thorough: forty) shallow random "
                     "graphs of 65535..100003 vertices are searched from three sources",
                floors={"sources": 8000, "source_destination_pairs": 30000, "all_shortest_path_sets_compared": 30000, "pairs_with_several_shortest_paths": 2000,
                        "unreachable_pairs": 3000, "paths_validated_edge_by_edge": 50000, "graphs_with_forced_duplicate_edges": 800,
                        "graphs_of_65535_to_100003_vertices": 10, "rejected_calls_made_on_a_graph_before_it_is_searched": 3000}),
    "C12": dict(level="exploration",
                rule="graph space of C11 on DirectedWeightedGraph / UndirectedWeightedGraph with weights from {0,1,2,3} (ties, zero cycles), dyadic k/16, all-zero, and "
                     "random non-negative doubles (exhaustive topologies on n<=3 get all four alphabets); every source: distances compared with Bellman-Ford (exactly for "
                     "the exact alphabets, 1e-9 relative otherwise), dist[s]=0, pred[s]=s, unreachable = +inf with sentinel predecessor, and for every reached v!=s an "
                     "edge (pred,v) with dist[v]=dist[pred]+w; ten (thorough: forty) graphs of 65535..131072 vertices of which 300, spread over the whole index range, "
                     "carry edges (reference: textbook Dijkstra); shuffled-order graphs have two rejected calls in their past",
                floors={"dijkstra_runs": 8000, "dijkstra_tree_edges_checked": 15000, "dijkstra_tree_edges_of_weight_zero": 1500, "weight_alphabet_all_zero": 300,
                        "graphs_of_65535_to_100003_vertices": 10, "rejected_calls_made_on_a_graph_before_it_is_searched": 8000}),
    "C19": dict(level="exploration",
                rule="work counters: wrapper graph types derive from the real classes and shadow getOutNeighbours with a counter that throws at bound+1; bounds exactly "
                     "as stated: findVertexPredecessors <= V, findAllVertexPredecessors <= V+E, findGeodesicsDijkstra <= V+E+1 (E = total neighbour-list length). "
                     "Families with exponentially many shortest paths (layered graphs of width 2-4 and depth up to 40: up to 4^40 paths; grids up to 12x12), complete "
                     "DAGs, cliques with loops, bipartite, cycles with chords, directed and undirected, and seeded random graphs on 5-40 vertices; Dijkstra additionally "
                     "with all-zero weights, {0,1,2,3} and dyadic weights; every source (8 sampled sources above 40 vertices); a third of the graphs hold every edge two or three times "
                     "(force=true: E counts list entries); shortcut-triangle chains and dense random graphs provoke decrease-key cascades. Wrong answers seen on the "
                     "way are counted but left to C11/C12: only the scan count is judged here",
                floors={"scan_bound_checks": 20000, "searches_from_sources_with_over_1e6_shortest_paths": 200, "dijkstra_runs": 5000, "bases_with_weights_in_32nds": 15000}),
}


def run_paths(prop, tier, seed):
    import subprocess
    t0 = time.time()
    plan = PATHS_PLAN[prop]
    binary = V.build_engine(PATHS, "asan")
    # C11/C12 also search a few graphs of 65535..100003 vertices (32-bit index arithmetic past 2^16 vertices)
    extra = ["--x-big", "10" if tier == "quick" else "40"] if prop in ("C11", "C12") else []
    total = int(subprocess.run([binary, "--prop", prop, "--tier", tier, "--mode", "count"] + extra, capture_output=True, text=True, env=dict(os.environ, **V.SAN_ENV)).stdout.strip())
    res = V.run_sharded(prop, binary, extra, total, seed, tier, V.NCPU, 900 if tier == "quick" else 10800, replay_dir(prop), tag="paths-" + prop)
    c = res.counters
    coverage = {
        "evaluations": int(total),
        "distinct_nontrivial": res.n_distinct(),
        "rule": plan["rule"],
        "samples": sample_list(res.samples),
        "counters": {k: v for k, v in sorted(c.items())},
        "build": "g++ -O1 -fsanitize=address,undefined -fno-sanitize-recover=all -D_GLIBCXX_ASSERTIONS",
        "exhaustive": False,
    }
    return V.conclude(prop, tier, seed, plan["level"], res, coverage, ASSUME_COMMON, plan["floors"], t0)


IO_PLAN = {
    "C13": dict(level="exploration", quick=36000, thorough=1200000,
                rule="(a) round trip: seeded random graphs (zero vertices, no edges, loops, isolated tail beyond the largest used index) on Labeled(Un)DirectedGraph with "
                     "labels NoLabel,int,double(%.17g),string(inner blanks, '#', empty),struct(own codec); the written file is parsed independently (header comment, "
                     "one 'src dst[ label]' line per edge), loaded, loaded size = 1+largest index, then resized and compared observer by observer, label by label and "
                     "with operator== against the original. (b) format: files generated from the documented grammar (comment lines anywhere, runs of blanks/tabs "
                     "before/between/after tokens, optional final newline) must load to the model. (c) vertex-name loader: random whitespace-free names (may contain or, "
                     "after blanks, start with '#'; numeric-looking names included): indices by first appearance, names[index(x)]==x, edges under the map",
                floors={"text_round_trips": 1500, "well_formed_files_loaded": 1500, "name_files_loaded": 1500, "comment_lines_generated": 500,
                        "hand_written_files_with_zero_padded_indices": 500, "round_trips_of_a_loaded_graph": 800,
                        "whitespace_runs_longer_than_one": 3000, "zero_vertex_graphs": 30, "graphs_with_isolated_tail": 200, "files_without_final_newline": 100}),
    "C14": dict(level="exploration", quick=40000, thorough=1200000,
                rule="seeded random graphs x label kinds none,uint8,int8,char,uint16,int32,uint32,int64,uint64,float,double x directed/undirected: bytes of the written "
                     "file compared with the monitor's own encoding (u32le src, u32le dst, label little-endian per enumerated edge), length = edges x record size, loaded "
                     "twice (deterministic), resized, compared with the model and operator== the original; hand-made files written by the monitor's encoder with records "
                     "shuffled / undirected pairs flipped must load to the same graph; every writer and loader (text ones too) on unopenable paths (missing directory, "
                     "over-long name, empty name, directory for writers, removed file for loaders) must throw std::runtime_error",
                floors={"binary_round_trips": 4000, "hand_made_files_loaded": 2000, "open_failure_calls": 1500, "file_bytes_compared_with_independent_encoding": 100000,
                        "written_graphs_carrying_forced_duplicates": 300, "round_trips_of_a_loaded_graph": 3000}),
    "C15": dict(level="fault_enumeration", quick=4000, thorough=120000,
                rule="(a) crash points: for seeded valid binary files (label sizes 0,1,2,4,8 bytes; directed and undirected) EVERY cut offset 0..length is loaded; the "
                     "loader must throw a std::exception or return exactly the complete records before the cut (vertices, edges, labels). (b) malformed text from a "
                     "grammar of mutations (blank / one-token / blank-only lines, '#' after blanks, non-numeric, negative, -1, overflowing, '12abc', hex, NUL and stray "
                     "bytes, CR, very long lines), vertex numbers kept in [0,2000] or negative or overflowing; both text loaders x NoLabel,int,string labels; oracle: "
                     "returns a graph whose observers can all be read, or throws something derived from std::exception. ASan+UBSan+_GLIBCXX_ASSERTIONS in-process; an "
                     "input that kills the process is re-run in a forked child and reported; thorough adds valgrind memcheck over the truncation cases",
                floors={"cut_offsets_loaded": 20000, "cuts_inside_a_record": 15000, "malformed_text_inputs": 3000, "malformed_text_loader_threw_std_exception": 800,
                        "malformed_text_loader_returned": 300, "cut_offsets_loaded_under_memcheck": 2000, "truncated_files_written_through_a_user_codec": 40}),
}


FUZZ = {"name": "fuzz-text", "units": [("fuzz_text.cpp", [])]}


def run_libfuzzer_c15(prop, seed, res, runs_per_worker=400000, workers=16):
    """Coverage-guided fuzzing of the text loaders (thorough tier). Returns a summary for the evidence file and appends
    violations to res for every artifact libFuzzer keeps (allocation-limit artifacts are not verdicts)."""
    import re
    import shutil
    import subprocess
    binary = V.build_engine(FUZZ, "clang-fuzz")
    wd = V.work_dir("fuzz")
    corpus = os.path.join(wd, "corpus")
    os.makedirs(corpus)
    seeds = [b"# Vertex1 Vertex2 Label\n0 1 a\n1 2 b c\n", b"0 1\n\t2   3 \n# x\n3 3", b"a b\nb c 12\n c a", b"10 2000 7\n-1 0\n", b"1 99999999999 1\n 0x1 1e3\n", b"\n \n#\n0\n"]
    for i, sd in enumerate(seeds):
        with open(os.path.join(corpus, "seed%d" % i), "wb") as fh:
            fh.write(sd)
    env = dict(os.environ)
    env.update(V.SAN_ENV)
    env["VERIF_FUZZ_DIR"] = wd
    procs = []
    for k in range(workers):
        cdir = os.path.join(wd, "corpus%d" % k)
        shutil.copytree(corpus, cdir)
        cmd = [binary, "-runs=%d" % runs_per_worker, "-seed=%d" % (seed * 64 + k + 1), "-max_len=400", "-artifact_prefix=%s/art%d-" % (wd, k), "-timeout=25",
               "-rss_limit_mb=6000", "-malloc_limit_mb=2048", "-print_final_stats=1", cdir]
        errp = os.path.join(wd, "fuzz%d.err" % k)
        procs.append((k, subprocess.Popen(cmd, stdout=subprocess.DEVNULL, stderr=open(errp, "w"), env=env, cwd=wd), errp))
    executed, cov, failed = 0, 0, 0
    for k, p, errp in procs:
        try:
            rc = p.wait(timeout=5400)
        except subprocess.TimeoutExpired:
            p.kill()
            rc = None
        err = open(errp, errors="replace").read()
        m = re.search(r"stat::number_of_executed_units:\s*(\d+)", err)
        if m:
            executed += int(m.group(1))
        for mm in re.finditer(r"cov: (\d+)", err):
            cov = max(cov, int(mm.group(1)))
        if rc not in (0,):
            failed += 1
            arts = [f for f in os.listdir(wd) if f.startswith("art%d-" % k)]
            if re.search(r"out-of-memory|allocation-size-too-big|malloc limit", err) and not re.search(r"VERIF:|SEGV|heap-buffer|stack-buffer|use-after|Assertion", err):
                res.counters["libfuzzer_allocation_limit_artifacts_not_verdicts"] = res.counters.get("libfuzzer_allocation_limit_artifacts_not_verdicts", 0) + 1
                continue
            key = "libfuzzer/" + V.symptom_key(err)
            os.makedirs(replay_dir(prop), exist_ok=True)
            rp = os.path.join(replay_dir(prop), "libfuzzer-s%d-w%d.json" % (seed, k))
            data = b""
            if arts:
                with open(os.path.join(wd, arts[0]), "rb") as fh:
                    data = fh.read()
            with open(rp, "w") as fh:
                json.dump({"property": prop, "key": key, "seed": seed, "input_bytes_hex": data.hex(), "input_text": data.decode("latin-1"),
                           "how_to_replay": "build harness/fuzz_text.cpp with the clang-fuzz flavor and run the binary on a file holding these bytes", "report": err[-3000:]}, fh, indent=1)
            res.viols.append({"key": key, "detail": err[-1500:], "replay": rp, "case": 0, "count": 1})
    shutil.rmtree(wd, ignore_errors=True)
    res.counters["libfuzzer_executed_inputs"] = executed
    return {"workers": workers, "executed_inputs": executed, "edge_coverage_max_over_workers": cov, "workers_that_stopped_on_an_artifact": failed}


def run_io(prop, tier, seed):
    t0 = time.time()
    plan = IO_PLAN[prop]
    binary = V.build_engine(IO, "asan")
    cases = plan[tier]
    res = V.run_sharded(prop, binary, [], cases, seed, tier, V.NCPU, 900 if tier == "quick" else 10800, replay_dir(prop), tag="io-" + prop,
                        isolate_args=["--x-isolate", "1"] if prop == "C15" else None)
    c = res.counters
    evaluations = cases
    memcheck = None
    if prop == "C15":
        # AddressSanitizer aborts on allocations it considers too large, where the uninstrumented program gets std::bad_alloc /
        # std::length_error - which the property allows. Such reports are not verdicts: the same input is loaded again by the
        # uninstrumented build in a forked child under an 8 GB address-space limit, and only what happens there counts.
        plain_bin = None
        kept, requalified = [], 0
        for v in res.viols:
            if not any(t in v["key"] for t in ("asan-requested", "allocation-size-too-big", "asan-out-of-memory")):
                kept.append(v)
                continue
            if plain_bin is None:
                plain_bin = V.build_engine(IO, "plain")
            rc2, d2, err2 = V.run_single_case(prop, plain_bin, ["--x-isolate", "1"], v["case"], seed, tier, replay_dir(prop), rlimit_as_gb=8)
            requalified += 1
            if d2 is None:
                v = dict(v)
                v["key"] = v["key"] + "/and-uninstrumented-build-died"
                kept.append(v)
            else:
                kept += d2["violations"]   # empty when the uninstrumented loader returned or threw a std::exception
        res.viols = kept
        c["asan_allocation_limit_reports_requalified_under_plain_build"] = requalified
        evaluations = int(c.get("cut_offsets_loaded", 0) + c.get("malformed_text_inputs", 0))
        # the uninitialised-read half of the claim: the truncation cases again under valgrind memcheck (uninstrumented -O1 build)
        plain = V.build_engine(IO, "plain")
        mcases = 48 if tier == "quick" else 1400
        r2 = V.run_sharded(prop, plain, ["--mode", "truncate-only", "--x-nobig", "1"], mcases, seed, tier, V.NCPU, 1200 if tier == "quick" else 10800, replay_dir(prop),
                           prefix=["valgrind", "--quiet", "--error-exitcode=66", "--exit-on-first-error=yes", "--track-origins=yes", "--num-callers=25"],
                           tag="io-memcheck")
        for v in r2.viols:
            v = dict(v)
            v["key"] = "memcheck/" + v["key"]
            res.viols.append(v)
        if r2.inconclusive and not res.inconclusive:
            res.inconclusive = "[memcheck] " + r2.inconclusive
        memcheck = {"truncated_source_files": r2.counters.get("truncated_source_files", 0), "cut_offsets_loaded_under_memcheck": r2.counters.get("cut_offsets_loaded", 0),
                    "memcheck_reports": len(r2.viols)}
        c["cut_offsets_loaded_under_memcheck"] = r2.counters.get("cut_offsets_loaded", 0)
        evaluations += int(r2.counters.get("cut_offsets_loaded", 0))
    coverage = {
        "evaluations": int(evaluations),
        "distinct_nontrivial": res.n_distinct(),
        "rule": plan["rule"],
        "samples": sample_list(res.samples),
        "counters": {k: v for k, v in sorted(c.items())},
        "build": "g++ -O1 -fsanitize=address,undefined -fno-sanitize-recover=all -D_GLIBCXX_ASSERTIONS",
        "exhaustive": False,
    }
    if prop == "C14":
        # open failures injected at the system-call boundary: the file exists and is openable; strace makes openat fail
        import shutil
        import subprocess
        plain = V.build_engine(IO, "plain")
        wd = V.work_dir("c14-inject")
        injected = {}
        errnos = ["EACCES", "EMFILE"] if tier == "quick" else ["EACCES", "EMFILE", "ENFILE", "ENOSPC", "EIO", "ENOMEM", "EROFS"]
        for en in errnos:
            path = os.path.join(wd, "victim-%s.dat" % en)
            with open(path, "wb") as fh:
                fh.write(b"\x00\x00\x00\x00\x01\x00\x00\x00")
            out = os.path.join(wd, "out-%s.json" % en)
            slog = os.path.join(wd, "strace-%s.log" % en)
            cmd = ["strace", "-f", "-o", slog, "-P", path, "-e", "trace=openat,open,creat", "-e", "inject=openat,open,creat:error=" + en,
                   plain, "--prop", prop, "--tier", tier, "--seed", str(seed), "--mode", "openfail-path", "--x-path", path, "--out", out,
                   "--replay-dir", replay_dir(prop), "--work-dir", wd]
            try:
                subprocess.run(cmd, stdout=subprocess.DEVNULL, stderr=subprocess.DEVNULL, timeout=300)
            except subprocess.TimeoutExpired:
                pass
            fired = 0
            if os.path.exists(slog):
                fired = open(slog, errors="replace").read().count("(INJECTED)")
            injected[en] = fired
            if os.path.exists(out):
                with open(out) as fh:
                    d2 = json.load(fh)
                for v in d2["violations"]:
                    v = dict(v)
                    v["key"] = v["key"] + "/" + en
                    res.viols.append(v)
                c["open_failure_calls"] = c.get("open_failure_calls", 0) + d2["counters"].get("open_failure_calls", 0)
            elif not res.inconclusive:
                res.inconclusive = "strace-injected run for %s produced no result" % en
            if fired < 9 and not res.inconclusive:
                res.inconclusive = "strace injected only %d of 9 expected openat failures for %s (injection did not reach the calls)" % (fired, en)
        shutil.rmtree(wd, ignore_errors=True)
        coverage["openat_failures_injected_by_strace"] = injected
        coverage["counters"]["open_failure_calls"] = c.get("open_failure_calls", 0)
    if prop == "C15" and tier == "thorough":
        coverage["libfuzzer"] = run_libfuzzer_c15(prop, seed, res)
    if memcheck is not None:
        coverage["valgrind_memcheck"] = memcheck
    assume = list(ASSUME_COMMON)
    if prop == "C14":
        assume.append("this host is little-endian: the byte-swapping branch for big-endian hosts is not executable here; 'any host' is observed as this host plus an independent encoder")
    return V.conclude(prop, tier, seed, plan["level"], res, coverage, assume, plan["floors"], t0)


RACE = {"name": "race", "units": [("race.cpp", [])]}


def run_c18(prop, tier, seed):
    t0 = time.time()
    res = V.ShardResult()
    cases = 160 if tier == "quick" else 4000
    ops = 60 if tier == "quick" else 150
    per = {}
    with cf.ThreadPoolExecutor(V.NCPU) as pool:
        bins = {fl: V.build_engine(RACE, fl, pool) for fl in ("tsan", "clang-tsan")}
    for fl in ("tsan", "clang-tsan"):
        r = V.run_sharded(prop, bins[fl], ["--x-ops", str(ops)], cases, seed, tier, 4, 1800 if tier == "quick" else 14400, replay_dir(prop), tag="race-" + fl)
        for v in r.viols:
            v = dict(v)
            v["key"] = fl + "/" + v["key"]
            res.viols.append(v)
        if r.inconclusive and not res.inconclusive:
            res.inconclusive = "[%s] %s" % (fl, r.inconclusive)
        for k, v in r.counters.items():
            if k.endswith("_max"):
                res.counters[k] = max(res.counters.get(k, 0), v)
            else:
                res.counters[k] = res.counters.get(k, 0) + v
        res.distinct.update(r.distinct)
        res.states.update(r.states)
        res.samples += r.samples[:2]
        per[fl] = {"thread_ops_executed": r.counters.get("thread_ops_executed", 0), "threads_started": r.counters.get("threads_started", 0),
                   "distinct_op_pairs_seen_overlapping": len(r.states), "tsan_reports": sum(1 for v in r.viols if "tsan" in v["key"])}
    c = res.counters
    coverage = {
        "evaluations": int(2 * cases),
        "distinct_nontrivial": len(res.distinct),
        "rule": "a case = one shared graph (6-12 vertices; classes LabeledDirectedGraph<int>, LabeledUndirectedGraph<string>, DirectedGraph, UndirectedGraph, both "
                "multigraphs, both weighted graphs) x a thread count in {2,3,4,8,16} x a seed; every thread runs a seeded random sequence over ALL const entry points "
                "of the class (observers, labels/weights/multiplicities, vertex and edge iteration, ==/!=, copy construction and assignment, reversal and conversions, "
                "getSubgraph(WithRemap), the six BFS searches, Dijkstra, operator<<, text/binary writers to per-thread files). Built with g++ and clang++ "
                "-fsanitize=thread, halt_on_error=1. Oracles: zero ThreadSanitizer reports and every result equal to the single-threaded baseline. The harness uses "
                "relaxed atomics only, so readers share no happens-before edge and TSan reports a write in a const member against any other thread's access whether or "
                "not they physically overlapped; physical overlap is measured as well (distinct op pairs seen in flight together). distinct_nontrivial = distinct "
                "(class, thread count, seed) cases",
        "samples": sample_list(res.samples, 4),
        "per_compiler": per,
        "distinct_op_pairs_seen_overlapping": len(res.states),
        "counters": {k: v for k, v in sorted(c.items())},
        "exhaustive": False,
    }
    floors = {"thread_ops_executed": 20000, "overlap_samples": 5000, "cases_with_16_threads": 10, "cases_with_2_threads": 10}
    return V.conclude(prop, tier, seed, "exploration", res, coverage, [
        "ThreadSanitizer (gcc 12 and clang 14 runtimes) detects the data races among the instrumented accesses it observes; libstdc++ itself is not instrumented",
        "schedules are sampled: thread counts <= 16 on a 16-core machine; what generalises beyond them is TSan's happens-before analysis, not the interleavings seen",
    ], floors, t0)


# ---- C17: the valid workloads of C01-C16 in a matrix of build configurations
LITE = {
    "hist": {"name": "hist-lite", "units": [("hist_main.cpp", [])] + [("hist_simple.cpp", ["-DVK_LABEL=%d" % k]) for k in (0, 1, 5)] +
             [("hist_multi.cpp", []), ("hist_weighted.cpp", [])]},
    "shape": {"name": "shape-lite", "units": [("shape_main.cpp", []), ("shape_other.cpp", []), ("shape_simple.cpp", ["-DVK_LABEL=1"]), ("shape_simple.cpp", ["-DVK_LABEL=5"]),
                                               ("shape_wctor.cpp", ["-DVK_WHICH=0"], "optional"), ("shape_wctor.cpp", ["-DVK_WHICH=1"], "optional")]},
    "paths": PATHS,
    "io": {"name": "io-lite", "units": [("io_main.cpp", []), ("io_text.cpp", ["-DVK_PART=1"]), ("io_text.cpp", ["-DVK_PART=2"]), ("io_bin.cpp", ["-DVK_PART=0"]),
                                         ("io_bin.cpp", ["-DVK_PART=3"])]},
}
# (engine, workload property, quick cases or stride, thorough ...): hist/io take a case count, shape/paths a stride over their space
C17_WORKLOADS = [
    ("hist", "C01", 420), ("hist", "C02", 420), ("hist", "C03", 300), ("hist", "C04", 300), ("hist", "C05", 300), ("hist", "C06", 400), ("hist", "C16", 400),
    ("shape", "C08", 23), ("shape", "C09", 29), ("shape", "C10", 23),
    ("paths", "C11", 19), ("paths", "C12", 31), ("paths", "C19", 7),
    ("io", "C13", 600), ("io", "C14", 600),
]
C17_FLAVORS = {"quick": ["asan", "debug", "o2", "clang-asan", "valgrind"], "thorough": ["asan", "debug", "o2", "o0", "clang-asan", "clang-o2", "valgrind"]}
# the quick tier runs only a thin slice under valgrind memcheck (uninitialised reads are invisible to ASan / UBSan)
C17_VALGRIND_QUICK = {("hist", "C04"), ("hist", "C05"), ("hist", "C03"), ("paths", "C11"), ("paths", "C12"), ("io", "C14"), ("shape", "C09")}


def run_c17(prop, tier, seed):
    import subprocess
    t0 = time.time()
    flavors = C17_FLAVORS[tier]
    mult = 1 if tier == "quick" else 12
    res = V.ShardResult()
    digests = {}    # (engine, workload) -> {flavor: digest}
    mismatch = {}   # (engine, workload) -> {flavor: set(model-mismatch keys)}
    per_flavor = {}
    samples = []
    total_cases = 0
    with cf.ThreadPoolExecutor(V.NCPU) as pool:
        bins = {}
        for fl in flavors:
            bf = "plain" if fl == "valgrind" else fl
            for eng in LITE:
                bins[(fl, eng)] = V.build_engine(LITE[eng], bf, pool)
    for fl in flavors:
        prefix = None
        if fl == "valgrind":
            prefix = ["valgrind", "--quiet", "--error-exitcode=66", "--exit-on-first-error=yes", "--track-origins=yes", "--num-callers=25"]
        fl_calls = 0
        for eng, wl, amount in C17_WORKLOADS:
            if fl == "valgrind" and tier == "quick" and (eng, wl) not in C17_VALGRIND_QUICK:
                continue
            binary = bins[(fl, eng)]
            slow = (60 if tier == "quick" else 25) if fl == "valgrind" else 1
            if eng in ("hist", "io"):
                cases = max(64, amount * mult // slow)
                extra = []
            else:
                total = int(subprocess.run([binary, "--prop", wl, "--tier", "quick", "--mode", "count"], capture_output=True, text=True,
                                           env=dict(os.environ, **V.SAN_ENV)).stdout.strip())
                stride = max(1, (amount * slow) // mult)
                cases = total
                extra = ["--x-stride", str(stride)]
            tw = time.time()
            r = V.run_sharded(wl, binary, extra, cases, seed, "quick", V.NCPU if fl != "valgrind" or tier != "quick" else 8, 1800 if tier == "quick" else 14400,
                              replay_dir(prop), prefix=prefix, tag="c17-%s-%s" % (fl, wl))
            if os.environ.get("VERIF_VERBOSE"):
                log("[c17] %-10s %s %.1fs" % (fl, wl, time.time() - tw))
            if r.inconclusive and not res.inconclusive:
                res.inconclusive = "[%s/%s] %s" % (fl, wl, r.inconclusive)
            executed = cases if eng in ("hist", "io") else (cases + int(extra[1]) - 1) // int(extra[1])
            total_cases += executed
            fl_calls += r.counters.get("calls_total", 0)
            key = (eng, wl)
            if fl != "valgrind":
                digests.setdefault(key, {})[fl] = r.counters.get("digest_xor", 0)
            mm = set()
            for v in r.viols:
                k = v["key"]
                if re_is_report(k):
                    v = dict(v)
                    v["key"] = "%s/%s/%s" % (fl, wl, k)
                    res.viols.append(v)
                else:
                    mm.add(k)
            if fl != "valgrind":
                mismatch.setdefault(key, {})[fl] = mm
            res.distinct.update(r.distinct)
            if fl == flavors[0]:
                samples += r.samples[:1]
            for k2, v2 in r.counters.items():
                if k2.startswith("calls_") or k2.startswith("obs_") or k2 in ("graphs_built", "dijkstra_runs", "sources", "text_round_trips", "binary_round_trips"):
                    per_flavor.setdefault(fl, {})
                    per_flavor[fl][k2] = per_flavor[fl].get(k2, 0) + v2
        per_flavor.setdefault(fl, {})["workload_cases"] = per_flavor.get(fl, {}).get("workload_cases", 0)
    # results must not depend on the build configuration
    disagreements = []
    for key, d in digests.items():
        if len(set(d.values())) > 1:
            disagreements.append((key, d))
            os.makedirs(replay_dir(prop), exist_ok=True)
            rp = os.path.join(replay_dir(prop), "digest-%s-%s-s%d.json" % (key[0], key[1], seed))
            with open(rp, "w") as fh:
                json.dump({"property": prop, "what": "order-independent digest of every result of workload %s/%s differs between build configurations" % key,
                           "digests": d, "seed": seed}, fh, indent=1)
            res.viols.append({"key": "results-depend-on-build/%s/%s" % key, "detail": "digest per configuration: %s" % d, "replay": rp, "case": 0, "count": 1})
    for key, d in mismatch.items():
        sets = list(d.values())
        if any(x != sets[0] for x in sets):
            rp = os.path.join(replay_dir(prop), "mismatch-%s-%s-s%d.json" % (key[0], key[1], seed))
            os.makedirs(replay_dir(prop), exist_ok=True)
            with open(rp, "w") as fh:
                json.dump({"property": prop, "what": "model disagreements of workload %s/%s differ between build configurations" % key,
                           "per_configuration": {k: sorted(v) for k, v in d.items()}}, fh, indent=1)
            res.viols.append({"key": "model-disagreement-depends-on-build/%s/%s" % key, "detail": str({k: sorted(v)[:3] for k, v in d.items()}), "replay": rp, "case": 0, "count": 1})
    behavioural = sorted({k for d in mismatch.values() for s_ in d.values() for k in s_})
    res.counters = {"workload_runs": len(flavors) * len(C17_WORKLOADS), "digests_compared": sum(len(d) for d in digests.values()),
                    "workloads_with_identical_digest_in_every_configuration": sum(1 for d in digests.values() if len(set(d.values())) == 1)}
    coverage = {
        "evaluations": int(total_cases),
        "distinct_nontrivial": len(res.distinct),
        "rule": "the valid workloads of C01-C06, C16 (call histories), C08-C10 (graph shapes, conversions, constructors, subgraphs), C11/C12/C19 (searches) and C13/C14 "
                "(file round trips) are executed, with the same seed, in every build configuration listed under 'configurations'; oracles: (1) no AddressSanitizer / "
                "UBSan / _GLIBCXX_ASSERTIONS / _GLIBCXX_DEBUG(+PEDANTIC) / valgrind-memcheck report and no crash in any configuration, (2) the order-independent digest "
                "of every result (full state after every history, operator<< output, search results, file bytes) is identical in all configurations, (3) the set of "
                "model disagreements is the same everywhere (a deterministic logic error belongs to the property that owns it, not here). distinct_nontrivial = "
                "distinct workload cases (union over configurations)",
        "samples": sample_list(samples, 6),
        "configurations": {fl: (" ".join(V.FLAVORS["plain" if fl == "valgrind" else fl]) + (" under valgrind --tool=memcheck" if fl == "valgrind" else "")) for fl in flavors},
        "digest_by_workload": {"%s/%s" % k: ("%x" % list(d.values())[0] if len(set(d.values())) == 1 else {f: "%x" % x for f, x in d.items()}) for k, d in digests.items()},
        "api_calls_and_observations_per_configuration": per_flavor,
        "deterministic_model_disagreements_ignored_here": behavioural[:20],
        "counters": res.counters,
        "exhaustive": False,
    }
    floors = {"digests_compared": len(C17_WORKLOADS) * (len(flavors) - (1 if "valgrind" in flavors else 0))}
    res.counters["workload_runs"] = sum(1 for fl in flavors for eng, wl, _ in C17_WORKLOADS
                                        if not (fl == "valgrind" and tier == "quick" and (eng, wl) not in C17_VALGRIND_QUICK))
    coverage["counters"] = res.counters
    return V.conclude(prop, tier, seed, "exploration", res, coverage, [
        "sanitizers see only the executions driven here; intra-object overflows and accesses far beyond a red zone can escape ASan (libstdc++ assertions / debug mode close that gap for standard containers only)",
        "libstdc++ is the standard library in every configuration (clang++ uses it too); libc++ is not installed",
        "valgrind memcheck (thorough tier) stands in for MemorySanitizer, which would need an instrumented libstdc++",
    ], floors, t0)


def re_is_report(key):
    """keys produced by crash triage (sanitizer / debug-mode / memcheck / signal) as opposed to model disagreements"""
    import re
    return bool(re.match(r"(asan-|ubsan-|tsan-|glibcxx-|memcheck-|crash|uncaught-exception|hang/|signal-|abnormal-exit)", key))


TITLES = {}
for line in open(os.path.join(V.VERIF, "properties.jsonl")):
    d = json.loads(line)
    TITLES[d["id"]] = d["title"]

PROPS = {}
for p in HIST_PLAN:
    PROPS[p] = {"title": TITLES[p], "run": run_hist, "engines": [("hist", "asan")]}


for p in SHAPE_PLAN:
    PROPS[p] = {"title": TITLES[p], "run": run_shape, "engines": [("shape", "asan")]}
for p in PATHS_PLAN:
    PROPS[p] = {"title": TITLES[p], "run": run_paths, "engines": [("paths", "asan")]}
for p in IO_PLAN:
    PROPS[p] = {"title": TITLES[p], "run": run_io, "engines": [("io", "asan")] + ([("io", "plain")] if p in ("C14", "C15") else [])}
PROPS["C17"] = {"title": TITLES["C17"], "run": run_c17, "engines": [(e, f) for e in ("hist-lite", "shape-lite", "paths", "io-lite") for f in ("asan", "debug", "o2", "clang-asan", "plain")]}
PROPS["C18"] = {"title": TITLES["C18"], "run": run_c18, "engines": [("race", "tsan"), ("race", "clang-tsan")]}
PROPS["C07"] = {"title": TITLES["C07"], "run": run_c07, "engines": [("reject", "asan")]}


for _e in LITE.values():
    ENGINES[_e["name"]] = _e
ENGINES["race"] = RACE


def build_all():
    """setup_cmd: warm the build cache (all engines, all flavors in use)."""
    todo = set()
    for p, d in PROPS.items():
        for e in d["engines"]:
            todo.add(e)
    rc = 0
    with cf.ThreadPoolExecutor(V.NCPU) as pool:
        for name, flavor in sorted(todo):
            try:
                V.build_engine(ENGINES[name], flavor, pool)
            except V.Inconclusive as e:
                log("build failed:", e)
                rc = 2
    return rc


def gc_build():
    """./check --gc: drop cached objects / binaries that do not belong to the current /repo headers and harness sources."""
    import glob
    todo = set()
    for p, d in PROPS.items():
        for e in d["engines"]:
            todo.add(e)
    for fl in C17_FLAVORS["thorough"]:
        for e in LITE.values():
            todo.add((e["name"], "plain" if fl == "valgrind" else fl))
    todo.add(("io", "plain"))
    keep = set()
    for name, flavor in todo:
        objs, binary = V.engine_paths(ENGINES[name], flavor)
        keep |= objs
        keep.add(binary)
        keep.add(binary + ".failures.json")
    removed = 0
    for f in glob.glob(os.path.join(V.BUILD, "*")):
        if f in keep:
            continue
        try:
            os.remove(f)
            removed += 1
        except OSError:
            pass
    log("gc: removed %d stale files from %s" % (removed, V.BUILD))
    return 0


def replay(prop, path):
    with open(path) as fh:
        d = json.load(fh)
    print(json.dumps(d, indent=1)[:6000])
    if "command" in d:
        import subprocess
        env = dict(os.environ)
        env.update(d.get("env", {}))
        p = subprocess.run(d["command"], env=env)
        return 1 if p.returncode != 0 else 0
    if "case" not in d or "seed" not in d:
        # witnesses that are not a single case (digest disagreement between builds, uninstantiable constructor): re-run the whole check
        log("this witness is not a single case; re-run ./check %s with VERIF_SEED=%s to reproduce" % (prop, d.get("seed", 1)))
        return 1
    # re-run the single case through the owning engine
    entry = PROPS[prop]
    name, flavor = entry["engines"][0]
    binary = V.build_engine(ENGINES[name], flavor)
    import subprocess
    env = dict(os.environ)
    env.update(V.SAN_ENV)
    cmd = [binary, "--prop", prop, "--tier", d.get("tier", "quick"), "--seed", str(d["seed"]), "--cases", str(10 ** 12), "--only", str(d["case"]),
           "--replay-dir", replay_dir(prop)]
    if d.get("mode"):
        cmd += ["--mode", d["mode"]]
    p = subprocess.run(cmd, env=env, stdout=subprocess.DEVNULL)
    return 1 if p.returncode != 0 else 0
