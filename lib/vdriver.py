"""Core of the check driver: build cache, sharded execution with crash/hang
triage, known-findings matching, evidence writing."""
import array
import concurrent.futures as cf
import hashlib
import json
import os
import re
import shutil
import signal
import subprocess
import sys
import time

VERIF = os.path.dirname(os.path.dirname(os.path.abspath(__file__)))
REPO = os.environ.get("VERIF_REPO", "/repo")
HARNESS = os.path.join(VERIF, "harness")
BUILD = os.environ.get("VERIF_BUILD_DIR") or os.path.join(VERIF, ".build")
EVIDENCE_DIR = os.environ.get("VERIF_EVIDENCE_DIR") or os.path.join(VERIF, "evidence")  # calibration runs against scratch copies write elsewhere
NCPU = min(16, os.cpu_count() or 4)


def log(*a):
    print(*a, file=sys.stderr, flush=True)


class Inconclusive(Exception):
    pass


# --------------------------------------------------------------------------- build
FLAVORS = {
    # name: (compiler, flags)
    "asan": ("g++", "-std=c++17 -O1 -g -fno-omit-frame-pointer -fsanitize=address,undefined "
                    "-fno-sanitize-recover=all -D_GLIBCXX_ASSERTIONS"),
    "debug": ("g++", "-std=c++17 -O0 -g -D_GLIBCXX_DEBUG -D_GLIBCXX_DEBUG_PEDANTIC"),
    "o2": ("g++", "-std=c++17 -O2"),
    "o0": ("g++", "-std=c++17 -O0"),
    "plain": ("g++", "-std=c++17 -O1 -g"),
    "clang-asan": ("clang++", "-std=c++17 -O1 -g -fno-omit-frame-pointer -fsanitize=address,undefined "
                              "-fno-sanitize=object-size -fno-sanitize-recover=all -D_GLIBCXX_ASSERTIONS"),
    "clang-o2": ("clang++", "-std=c++17 -O2"),
    "clang-fuzz": ("clang++", "-std=c++17 -O1 -g -fno-omit-frame-pointer -fsanitize=fuzzer,address,undefined -fno-sanitize=object-size "
                              "-fno-sanitize-recover=all -D_GLIBCXX_ASSERTIONS"),
    "tsan": ("g++", "-std=c++17 -O1 -g -fno-omit-frame-pointer -fsanitize=thread -pthread"),
    "clang-tsan": ("clang++", "-std=c++17 -O1 -g -fno-omit-frame-pointer -fsanitize=thread -pthread"),
}

_tree_hash_cache = {}


def tree_hash(root, exts=(".h", ".hpp", ".cpp")):
    if root in _tree_hash_cache:
        return _tree_hash_cache[root]
    h = hashlib.sha256()
    for d, dirs, files in sorted(os.walk(root)):
        dirs.sort()
        for f in sorted(files):
            if f.endswith(exts):
                p = os.path.join(d, f)
                h.update(os.path.relpath(p, root).encode())
                with open(p, "rb") as fh:
                    h.update(hashlib.sha256(fh.read()).digest())
    _tree_hash_cache[root] = h.hexdigest()
    return _tree_hash_cache[root]


def harness_headers_hash():
    h = hashlib.sha256()
    for f in sorted(os.listdir(HARNESS)):
        if f.endswith((".hpp", ".h")):
            with open(os.path.join(HARNESS, f), "rb") as fh:
                h.update(f.encode())
                h.update(fh.read())
    return h.hexdigest()


def _compile_obj(args):
    cmd, obj = args
    if os.path.exists(obj):
        return (0, "", obj)
    tmp = obj + ".tmp%d" % os.getpid()
    p = subprocess.run(cmd + ["-o", tmp], capture_output=True, text=True)
    if p.returncode == 0:
        os.replace(tmp, obj)
    return (p.returncode, p.stdout + p.stderr, obj)


def build_engine(engine, flavor, pool=None):
    """engine: dict(name, units=[(src, [defines])] or [(src, [defines], "optional")], libs=[...]).
    Returns the binary path. Objects are cached by a hash over the library
    headers, the harness sources and the exact command line, so an edited header
    always recompiles. An "optional" unit that does not compile is replaced by
    its -DVK_STUB variant and listed in <binary>.failures.json (the monitor in
    it could not be brought to execution; the caller decides what that means)."""
    comp, flags = FLAVORS[flavor]
    inc = os.path.join(REPO, "include")
    base = hashlib.sha256((tree_hash(inc) + harness_headers_hash() + comp + flags).encode()).hexdigest()
    os.makedirs(BUILD, exist_ok=True)

    def job(src, defs):
        sp = os.path.join(HARNESS, src)
        with open(sp, "rb") as fh:
            sh = hashlib.sha256(fh.read()).hexdigest()
        key = hashlib.sha256((base + sh + " ".join(defs)).encode()).hexdigest()[:24]
        obj = os.path.join(BUILD, "%s-%s-%s.o" % (os.path.splitext(src)[0], flavor, key))
        cmd = [comp] + flags.split() + ["-I" + inc, "-I" + HARNESS] + defs + ["-c", sp]
        return (cmd, obj)

    units = [(u[0], u[1], len(u) > 2 and u[2] == "optional") for u in engine["units"]]
    jobs = [job(src, defs) for src, defs, _ in units]
    id_key = hashlib.sha256(("".join(o for _, o in jobs) + " ".join(engine.get("libs", []))).encode()).hexdigest()[:24]
    binary = os.path.join(BUILD, "%s-%s-%s.bin" % (engine["name"], flavor, id_key))
    if os.path.exists(binary):
        return binary
    t0 = time.time()
    own = pool is None
    if own:
        pool = cf.ThreadPoolExecutor(NCPU)
    failures = []
    try:
        # optional units whose failure is already known are not recompiled
        results = list(pool.map(_compile_obj, jobs))
        objs = []
        for (src, defs, optional), (rc, out, obj) in zip(units, results):
            if rc == 0:
                objs.append(obj)
            elif optional:
                failures.append({"src": src, "defs": defs, "output": out[-5000:]})
                cmd2, obj2 = job(src, defs + ["-DVK_STUB"])
                rc2, out2, _ = _compile_obj((cmd2, obj2))
                if rc2 != 0:
                    raise Inconclusive("stub of %s does not compile:\n%s" % (src, out2[-4000:]))
                objs.append(obj2)
            else:
                raise Inconclusive("compilation of %s failed:\n%s" % (obj, out[-6000:]))
    finally:
        if own:
            pool.shutdown()
    tmp = binary + ".tmp%d" % os.getpid()
    cmd = [comp] + flags.split() + objs + engine.get("libs", []) + ["-o", tmp]
    p = subprocess.run(cmd, capture_output=True, text=True)
    if p.returncode != 0:
        raise Inconclusive("link of %s failed:\n%s" % (binary, (p.stdout + p.stderr)[-4000:]))
    with open(binary + ".failures.json", "w") as fh:
        json.dump(failures, fh)
    os.replace(tmp, binary)
    log("[build] %s/%s in %.1fs" % (engine["name"], flavor, time.time() - t0))
    return binary


def engine_paths(engine, flavor):
    """(object files incl. stub variants, binary) the engine uses for the current tree, without building anything"""
    comp, flags = FLAVORS[flavor]
    inc = os.path.join(REPO, "include")
    base = hashlib.sha256((tree_hash(inc) + harness_headers_hash() + comp + flags).encode()).hexdigest()
    objs, all_objs = [], set()
    for u in engine["units"]:
        src, defs = u[0], u[1]
        with open(os.path.join(HARNESS, src), "rb") as fh:
            sh = hashlib.sha256(fh.read()).hexdigest()
        for i, dd in enumerate((defs, defs + ["-DVK_STUB"])):
            key = hashlib.sha256((base + sh + " ".join(dd)).encode()).hexdigest()[:24]
            o = os.path.join(BUILD, "%s-%s-%s.o" % (os.path.splitext(src)[0], flavor, key))
            all_objs.add(o)
            if i == 0:
                objs.append(o)
    id_key = hashlib.sha256(("".join(objs) + " ".join(engine.get("libs", []))).encode()).hexdigest()[:24]
    binary = os.path.join(BUILD, "%s-%s-%s.bin" % (engine["name"], flavor, id_key))
    return all_objs, binary


def build_failures(binary):
    try:
        with open(binary + ".failures.json") as fh:
            return json.load(fh)
    except Exception:
        return []


def try_compile(src, defs, flavor="o0"):
    """Compile one unit (syntax only would not instantiate templates, so a real
    -c). Returns (ok, compiler output)."""
    comp, flags = FLAVORS[flavor]
    inc = os.path.join(REPO, "include")
    sp = os.path.join(HARNESS, src)
    os.makedirs(BUILD, exist_ok=True)
    with open(sp, "rb") as fh:
        sh = hashlib.sha256(fh.read()).hexdigest()
    key = hashlib.sha256((tree_hash(inc) + harness_headers_hash() + comp + flags + sh + " ".join(defs)).encode()).hexdigest()[:24]
    marker = os.path.join(BUILD, "try-%s-%s.json" % (os.path.splitext(src)[0], key))
    if os.path.exists(marker):
        with open(marker) as fh:
            d = json.load(fh)
        return d["ok"], d["out"]
    obj = marker + ".o"
    p = subprocess.run([comp] + flags.split() + ["-I" + inc, "-I" + HARNESS] + defs + ["-c", sp, "-o", obj], capture_output=True, text=True)
    ok = p.returncode == 0
    out = (p.stdout + p.stderr)[-6000:]
    if os.path.exists(obj):
        os.remove(obj)
    with open(marker, "w") as fh:
        json.dump({"ok": ok, "out": out}, fh)
    return ok, out


# --------------------------------------------------------------------------- run
SAN_ENV = {
    "ASAN_OPTIONS": "abort_on_error=0:exitcode=66:detect_leaks=0:max_allocation_size_mb=2048:allocator_may_return_null=0:handle_abort=1",
    "UBSAN_OPTIONS": "print_stacktrace=1:halt_on_error=1:exitcode=66",
    "TSAN_OPTIONS": "halt_on_error=1:exitcode=66:second_deadlock_stack=1",
}


def work_dir(tag):
    base = "/dev/shm" if os.path.isdir("/dev/shm") and os.access("/dev/shm", os.W_OK) else os.path.join(VERIF, ".work")
    d = os.path.join(base, "verif-%s-%d" % (tag, os.getpid()))
    os.makedirs(d, exist_ok=True)
    return d


def symptom_key(stderr):
    """Derive a stable key from a sanitizer / abort report."""
    kind = "crash"
    m = re.search(r"ERROR: AddressSanitizer: ([\w-]+)", stderr)
    if "Assertion" in stderr and "failed" in stderr:
        kind = "glibcxx-assertion"
    elif m:
        kind = "asan-" + m.group(1)
    elif re.search(r"runtime error: (.*)", stderr):
        msg = re.search(r"runtime error: (.*)", stderr).group(1)
        msg = re.sub(r"0x[0-9a-f]+", "ADDR", msg)
        msg = re.sub(r"-?\d+", "N", msg)
        kind = "ubsan-" + re.sub(r"[^A-Za-z]+", "-", msg)[:60].strip("-")
    elif "WARNING: ThreadSanitizer" in stderr:
        m = re.search(r"WARNING: ThreadSanitizer: ([\w -]+)", stderr)
        kind = "tsan-" + (m.group(1).strip().replace(" ", "-") if m else "report")
    elif "Assertion" in stderr and "failed" in stderr:
        kind = "glibcxx-assertion"
    elif "Error: " in stderr and "_GLIBCXX_DEBUG" not in stderr and re.search(r"Error: (.*)", stderr) and "In function:" in stderr:
        kind = "glibcxx-debug-" + re.sub(r"[^A-Za-z]+", "-", re.search(r"Error: (.*)", stderr).group(1))[:50].strip("-")
    elif re.search(r"==\d+== (Conditional jump or move depends on uninitialised|Use of uninitialised|Invalid (read|write)|Invalid free|Mismatched free|Source and destination overlap)", stderr):
        mm = re.search(r"==\d+== (Conditional jump or move depends on uninitialised|Use of uninitialised|Invalid (read|write)|Invalid free|Mismatched free|Source and destination overlap)", stderr)
        kind = "memcheck-" + re.sub(r"[^A-Za-z]+", "-", mm.group(1)).strip("-")
    elif "terminate called" in stderr:
        kind = "uncaught-exception"
    fn = ""
    for line in stderr.splitlines():
        mm = re.search(r"#\d+ 0x[0-9a-f]+ in (.+?) /\S*include/BaseGraph/(\S+?):(\d+)", line)
        if mm:
            f = mm.group(1)
            f = re.sub(r"\(.*$", "", f)
            f = re.sub(r"<.*>", "", f)
            fn = f.split("::")[-1] + "@" + mm.group(2)
            break
    if not fn:
        for line in stderr.splitlines():
            mm = re.search(r"#\d+ (.+?) /\S*include/BaseGraph/(\S+?):(\d+)", line)
            if mm and not mm.group(1).startswith("0x"):
                f = re.sub(r"\(.*$", "", mm.group(1))
                f = re.sub(r"<.*>", "", f)
                fn = f.split("::")[-1].strip() + "@" + mm.group(2)
                break
    if not fn:
        heads = ("directed_graph.hpp", "undirected_graph.hpp", "directed_multigraph.hpp", "undirected_multigraph.hpp", "directed_weighted_graph.hpp",
                 "undirected_weighted_graph.hpp", "fileio.hpp", "paths.hpp", "topology.hpp", "types.h", "boost_hash.hpp")
        for line in stderr.splitlines():
            mm = re.search(r"(?:at|by) 0x[0-9A-Fa-f]+: (.+?) \((\S+?):(\d+)\)", line)
            if mm and mm.group(2) in heads:
                f = re.sub(r"\(.*$", "", mm.group(1))
                f = re.sub(r"<.*>", "", f)
                fn = f.split("::")[-1] + "@" + mm.group(2)
                break
    return kind + ("/" + fn if fn else "")


class ShardResult:
    def __init__(self):
        self.counters = {}
        self.samples = []
        self.viols = []  # dict(key, detail, replay)
        self.inconclusive = None
        self.states = set()
        self.distinct = set()
        self.states_overflow = False
        self.distinct_overflow = False

    def n_distinct(self):
        # union over shards of the case hashes; falls back to the per-shard sum when a shard's set was too large to ship
        return int(self.counters.get("distinct_cases", 0)) if self.distinct_overflow or not self.distinct else len(self.distinct)

    def n_states(self):
        return int(self.counters.get("distinct_states", 0)) if self.states_overflow or not self.states else len(self.states)


def run_sharded(prop, binary, args, cases, seed, tier, nshards, timeout_s, replay_dir, env_extra=None, prefix=None, tag="run", isolate_args=None):
    """Runs `binary` over case indices [0,cases) split in nshards processes.
    Crashing / hanging cases are re-run alone, reported and skipped."""
    wd = work_dir(tag)
    env = dict(os.environ)
    env.update(SAN_ENV)
    if env_extra:
        env.update(env_extra)
    os.makedirs(replay_dir, exist_ok=True)
    res = ShardResult()
    nshards = max(1, min(nshards, cases))

    def base_cmd(shard, out, prog, extra):
        c = (prefix or []) + [binary, "--prop", prop, "--tier", tier, "--seed", str(seed), "--cases", str(cases),
                              "--shard", str(shard), "--nshards", str(nshards), "--out", out, "--progress", prog,
                              "--replay-dir", replay_dir, "--work-dir", wd] + args + extra
        return c

    def run_shard(shard):
        out = os.path.join(wd, "out_%d.json" % shard)
        prog = os.path.join(wd, "prog_%d" % shard)
        merged = {"counters": {}, "samples": [], "violations": [], "inconclusive": None}
        resume = 0
        crashes = 0
        deadline = time.time() + timeout_s
        while True:
            for f in (out, prog):
                if os.path.exists(f):
                    os.remove(f)
            extra = ["--x-resume", str(resume)] if resume else []
            cmd = base_cmd(shard, out, prog, extra)
            errp = os.path.join(wd, "err_%d.txt" % shard)
            with open(errp, "w") as errf:
                p = subprocess.Popen(cmd, stdout=subprocess.DEVNULL, stderr=errf, env=env, cwd=wd)
                try:
                    rc = p.wait(timeout=max(5, deadline - time.time()))
                    hung = False
                except subprocess.TimeoutExpired:
                    p.kill()
                    p.wait()
                    rc = None
                    hung = True
            if rc in (0, 1) and os.path.exists(out):
                with open(out) as fh:
                    d = json.load(fh)
                for k, v in d["counters"].items():
                    if k.endswith("_max"):
                        merged["counters"][k] = max(merged["counters"].get(k, 0), v)
                    elif k.endswith("_xor"):
                        merged["counters"][k] = merged["counters"].get(k, 0) ^ v
                    else:
                        merged["counters"][k] = merged["counters"].get(k, 0) + v
                merged["samples"] += d["samples"]
                merged["violations"] += d["violations"]
                for suf in ("states", "distinct"):
                    fp = out + "." + suf
                    if os.path.exists(fp) and os.path.getsize(fp) <= 24_000_000:
                        a = array.array("Q")
                        with open(fp, "rb") as fh:
                            a.frombytes(fh.read())
                        merged.setdefault(suf, set()).update(a)
                    elif os.path.exists(fp):
                        merged[suf + "_overflow"] = True
                return merged
            if rc == 2 and not hung:
                with open(errp, errors="replace") as fh:
                    merged["inconclusive"] = "harness of shard %d gave up (exit 2): %s" % (shard, fh.read()[-800:])
                return merged
            # crash or hang: which case?
            idx = None
            try:
                with open(prog) as fh:
                    idx = int(fh.read().split()[0])
            except Exception:
                pass
            with open(errp, errors="replace") as fh:
                err = fh.read()
            if idx is None:
                merged["inconclusive"] = "shard %d died (rc=%s) before reporting a case: %s" % (shard, rc, err[-1500:])
                return merged
            # confirm alone
            only_cmd = base_cmd(shard, out + ".only", prog + ".only", ["--only", str(idx)] + (isolate_args or []))
            if os.path.exists(out + ".only"):
                os.remove(out + ".only")
            try:
                p2 = subprocess.run(only_cmd, stdout=subprocess.DEVNULL, stderr=subprocess.PIPE, env=env, cwd=wd, timeout=120, text=True, errors="replace")
                rc2, err2, hung2 = p2.returncode, p2.stderr, False
            except subprocess.TimeoutExpired as te:
                rc2, err2, hung2 = None, (te.stderr or b"").decode(errors="replace") if isinstance(te.stderr, bytes) else (te.stderr or ""), True
            if isolate_args and not hung2 and rc2 in (0, 1) and os.path.exists(out + ".only"):
                # the engine enumerated the case cell by cell in forked children: take its own report
                with open(out + ".only") as fh:
                    d2 = json.load(fh)
                if d2["violations"] or not hung:
                    merged["violations"] += d2["violations"]
                    if not d2["violations"]:
                        merged["inconclusive"] = "shard %d crashed at case %d but the isolated re-run found nothing: %s" % (shard, idx, err[-800:])
                        return merged
                    crashes += 1
                    if crashes >= 3:
                        # enough witnesses from this shard; the verdict is already "violated"
                        merged["counters"]["shards_abandoned_after_crashes"] = 1
                        return merged
                    resume = idx + 1
                    continue
            if hung and not hung2:
                merged["inconclusive"] = "shard %d hit the %ds watchdog at case %d but the case ends when run alone" % (shard, timeout_s, idx)
                return merged
            if not hung and rc2 in (0, 1) and not hung2:
                # not reproducible alone: take the original report as the witness
                err2 = err
            if hung2:
                key = "hang/" + tag + "/case-does-not-terminate"
                detail = "case %d does not terminate within 120 s when run alone" % idx
            else:
                key = symptom_key(err2 if err2.strip() else err)
                detail = (err2 if err2.strip() else err)[-3000:]
            rp = os.path.join(replay_dir, "%s-s%d-c%d.json" % (re.sub(r"[^A-Za-z0-9_.-]", "_", key)[:100], seed, idx))
            with open(rp, "w") as fh:
                json.dump({"property": prop, "key": key, "seed": seed, "case": idx, "tier": tier,
                           "command": only_cmd, "env": {k: env[k] for k in SAN_ENV}, "report": detail}, fh, indent=1)
            merged["violations"].append({"key": key, "detail": detail[-1200:], "replay": rp, "case": idx, "count": 1})
            crashes += 1
            if crashes >= 4 or hung:
                merged["counters"]["shards_abandoned_after_crashes"] = 1
                return merged
            resume = idx + 1

    with cf.ThreadPoolExecutor(nshards) as ex:
        parts = list(ex.map(run_shard, range(nshards)))
    for m in parts:
        for k, v in m["counters"].items():
            if k.endswith("_max"):
                res.counters[k] = max(res.counters.get(k, 0), v)
            elif k.endswith("_xor"):
                res.counters[k] = res.counters.get(k, 0) ^ v
            else:
                res.counters[k] = res.counters.get(k, 0) + v
        for suf in ("states", "distinct"):
            if suf in m:
                getattr(res, suf).update(m[suf])
            if m.get(suf + "_overflow"):
                setattr(res, suf + "_overflow", True)
        res.samples += m["samples"]
        res.viols += m["violations"]
        if m["inconclusive"] and not res.inconclusive:
            res.inconclusive = m["inconclusive"]
    shutil.rmtree(wd, ignore_errors=True)
    return res


def run_single_case(prop, binary, args, case, seed, tier, replay_dir, rlimit_as_gb=None, timeout=300):
    """Runs exactly one case of an engine in its own process (optionally under an address-space limit) and returns
    (exit code or None on timeout, parsed result JSON or None, stderr tail)."""
    import resource
    wd = work_dir("single")
    out = os.path.join(wd, "out.json")
    env = dict(os.environ)
    env.update(SAN_ENV)
    cmd = [binary, "--prop", prop, "--tier", tier, "--seed", str(seed), "--cases", str(10 ** 12), "--only", str(case), "--out", out,
           "--replay-dir", replay_dir, "--work-dir", wd] + args

    def limit():
        if rlimit_as_gb:
            b = int(rlimit_as_gb * (1 << 30))
            resource.setrlimit(resource.RLIMIT_AS, (b, b))

    try:
        p = subprocess.run(cmd, stdout=subprocess.DEVNULL, stderr=subprocess.PIPE, env=env, cwd=wd, timeout=timeout, text=True, errors="replace", preexec_fn=limit)
        rc, err = p.returncode, p.stderr[-3000:]
    except subprocess.TimeoutExpired:
        rc, err = None, "timeout"
    d = None
    if os.path.exists(out):
        with open(out) as fh:
            d = json.load(fh)
    shutil.rmtree(wd, ignore_errors=True)
    return rc, d, err


# --------------------------------------------------------------------------- findings
def load_known():
    """KNOWN_FINDINGS.txt: lines `open: property=<id> key=<key> <what fails>` suppress
    exactly that key; `fixed: ...` lines are history and suppress nothing."""
    known = []
    p = os.path.join(VERIF, "KNOWN_FINDINGS.txt")
    if os.path.exists(p):
        for line in open(p):
            line = line.strip()
            m = re.match(r"open:\s+property=(\S+)\s+key=(\S+)\s+(.*)$", line)
            if m:
                known.append((m.group(1), m.group(2), m.group(3)))
    return known


def write_evidence(prop, tier, seed, level, coverage, assumptions, wall, nviol):
    os.makedirs(EVIDENCE_DIR, exist_ok=True)
    ev = {"property_id": prop, "tier": tier, "seed": seed, "level": level, "coverage": coverage,
          "assumptions": assumptions, "wall_s": round(wall, 2), "violations": nviol}
    p = os.path.join(EVIDENCE_DIR, prop + ".json")
    with open(p + ".tmp", "w") as fh:
        json.dump(ev, fh, indent=1)
    os.replace(p + ".tmp", p)


def conclude(prop, tier, seed, level, res, coverage, assumptions, floors, t0):
    """Common tail of every check: floors, known findings, evidence, exit code."""
    known = load_known()
    by_key = {}
    for v in res.viols:
        by_key.setdefault(v["key"], v)
    unlisted = []
    for key, v in by_key.items():
        hit = [k for k in known if k[0] == prop and k[1] == key]
        if hit:
            print("KNOWN-FINDING: property=%s %s" % (prop, hit[0][2]))
        else:
            unlisted.append(v)
    coverage = dict(coverage)
    coverage["violation_keys"] = sorted(by_key.keys())[:40]
    floor_fail = []
    if not res.viols and not res.inconclusive:
        for k, mn in floors.items():
            if res.counters.get(k, 0) < mn:
                floor_fail.append("%s=%d < %d" % (k, res.counters.get(k, 0), mn))
    write_evidence(prop, tier, seed, level, coverage, assumptions, time.time() - t0, len(by_key))
    for v in unlisted:
        print("VIOLATION property=%s replay=%s" % (prop, v.get("replay") or "-"))
        log("  key=%s :: %s" % (v["key"], v["detail"][:700].replace("\n", " | ")))
    if unlisted:
        return 1
    if res.inconclusive:
        log("INCONCLUSIVE property=%s: %s" % (prop, res.inconclusive))
        return 2
    if floor_fail:
        log("INCONCLUSIVE property=%s: coverage floor not met: %s" % (prop, "; ".join(floor_fail)))
        return 2
    print("HELD property=%s tier=%s seed=%d evaluations=%s distinct=%s wall=%.1fs" % (
        prop, tier, seed, coverage.get("evaluations"), coverage.get("distinct_nontrivial"), time.time() - t0))
    return 0


# --------------------------------------------------------------------------- main
def main(argv):
    import props
    if not argv or argv[0] in ("-h", "--help"):
        print(__doc__)
        return 2
    if argv[0] == "--list":
        for k in sorted(props.PROPS):
            print(k, props.PROPS[k]["title"])
        return 0
    if argv[0] == "--build-all":
        return props.build_all()
    if argv[0] == "--gc":
        return props.gc_build()
    prop = argv[0]
    tier = os.environ.get("VERIF_TIER", "quick")
    replay = None
    i = 1
    while i < len(argv):
        if argv[i] == "--tier":
            tier = argv[i + 1]
            i += 2
        elif argv[i] == "--replay":
            replay = argv[i + 1]
            i += 2
        else:
            log("unknown argument", argv[i])
            return 2
    if tier not in ("quick", "thorough"):
        log("bad tier", tier)
        return 2
    if prop not in props.PROPS:
        log("unknown property", prop)
        return 2
    try:
        seed = int(os.environ.get("VERIF_SEED", "1"))
    except ValueError:
        seed = 1
    seed = abs(seed) % (1 << 62)
    try:
        if replay:
            return props.replay(prop, replay)
        return props.PROPS[prop]["run"](prop, tier, seed)
    except Inconclusive as e:
        log("INCONCLUSIVE property=%s: %s" % (prop, e))
        return 2
