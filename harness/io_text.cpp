// Text edge lists: C13 (round trip, documented format, vertex-name loader) and
// the malformed-text half of C15.
#include "io_common.hpp"

#include <climits>

namespace vf {
namespace {
using namespace BaseGraph;

struct Counters {
    uint64_t zeroPaddedFiles = 0, secondRoundTrips = 0, bigFiles = 0, largeIndexGraphs = 0, roundTrips = 0, linesParsedIndependently = 0, formatFiles = 0, commentLines = 0, whitespaceRuns = 0, nameFiles = 0, namesChecked = 0, labelReads = 0,
             fuzzInputs = 0, fuzzReturned = 0, fuzzThrew = 0, zeroVertexGraphs = 0, noEdgeGraphs = 0, isolatedTails = 0, filesWithoutFinalNewline = 0;
    uint64_t fuzzByExc[6] = {0};
    ObsCounters oc;
} C;

// ---- text codecs ------------------------------------------------------------
template <class L> struct Codec;
template <> struct Codec<NoLabel> {
    static std::string enc(const NoLabel &) { return ""; }
    static NoLabel dec(const std::string &) { return {}; }
    static NoLabel make(uint64_t) { return {}; }
};
template <> struct Codec<int> {
    static std::string enc(const int &v) { return std::to_string(v); }
    static int dec(const std::string &s) { return std::stoi(s); }
    static int make(uint64_t s) { return LT<int>::make(s); }
};
template <> struct Codec<double> {
    static std::string enc(const double &v) {
        char b[40];
        snprintf(b, sizeof b, "%.17g", v);
        return b;
    }
    static double dec(const std::string &s) { return std::stod(s); }
    static double make(uint64_t s) { return (double)((int64_t)(s % 2000003) - 1000001) / 7.0 * ((s & 4) ? 1e-3 : 1.0); }
};
template <> struct Codec<std::string> {
    static std::string enc(const std::string &v) { return v; }
    static std::string dec(const std::string &s) { return s; }
    // inner spaces and tabs, '#', sometimes empty, never leading whitespace, no line break
    static std::string make(uint64_t s) {
        switch (s % 6) {
        case 0: return "";
        case 1: return "w" + std::to_string(s);
        case 2: return "two words " + std::to_string(s);
        case 3: return "#hash\tand tab " + std::to_string(s);
        case 4: return std::to_string(s) + " 7 8";
        default: return "x" + std::to_string(s) + std::string(1 + s % 30, 'y') + " z";
        }
    }
};
template <> struct Codec<UserLabel> {
    static std::string enc(const UserLabel &v) { return std::to_string(v.a) + "|" + v.b; }
    static UserLabel dec(const std::string &s) {
        UserLabel l;
        size_t p = s.find('|');
        if (p == std::string::npos) throw std::invalid_argument("bad struct label");
        l.a = std::stoi(s.substr(0, p));
        l.b = s.substr(p + 1);
        return l;
    }
    static UserLabel make(uint64_t s) {
        UserLabel l;
        l.a = (int)(s % 100003) - 50000;
        l.b = "s" + std::to_string(s) + ((s % 2) ? " with space" : "");
        return l;
    }
};
template <class L> const char *lname() { return LT<L>::name(); }

template <template <class...> class GT> struct Dir;
template <> struct Dir<LabeledDirectedGraph> {
    static constexpr bool value = true;
    static const char *name() { return "LabeledDirectedGraph"; }
};
template <> struct Dir<LabeledUndirectedGraph> {
    static constexpr bool value = false;
    static const char *name() { return "LabeledUndirectedGraph"; }
};

template <template <class...> class GT, class L> std::pair<GT<L>, std::vector<std::string>> loadIndexed(const std::string &p) {
    if constexpr (std::is_same<L, NoLabel>::value) {
        return io::loadTextEdgeList<GT, NoLabel>(p);
    } else {
        std::function<L(const std::string &)> dec = [](const std::string &s) { return Codec<L>::dec(s); };
        return io::loadTextEdgeList<GT, L>(p, dec);
    }
}
template <template <class...> class GT, class L> void writeText(const GT<L> &g, const std::string &p) {
    std::function<std::string(const L &)> enc = [](const L &l) { return Codec<L>::enc(l); };
    io::writeTextEdgeList(g, p, enc);
}

// compare a loaded graph (after resize) with the expected edges/labels and the original
// sizeRule: true = the loader's documented size rule (1+largest used index) is part of the claim being checked;
// false = only "at least the vertices that are named" (the vertex-name loader's size is not stated by any property)
template <class G, class L> std::string compareLoaded(G &loaded, const GraphSpec &s, const std::map<Edge, L> &labels, const G *original, bool sizeRule = true) {
    std::ostringstream o;
    unsigned used = usedSize(s);
    if (sizeRule ? loaded.getSize() != used : loaded.getSize() < used) {
        o << "loaded graph has " << loaded.getSize() << " vertices, 1+largest used index is " << used;
        return o.str();
    }
    if (!sizeRule && loaded.getSize() > s.n) return ""; // larger than needed: nothing more is claimed
    loaded.resize(s.n);
    std::string e;
    if (s.n > 64) {
        e = checkSparse(loaded, s);
    } else {
        Expect x;
        x.directed = s.directed;
        x.n = s.n;
        for (auto &e2 : s.edges) x.e[e2] = Expect::Cell();
        e = checkEdgesOnly(loaded, x, C.oc);
    }
    if (!e.empty()) return "loaded graph: " + e;
    for (auto &kv : labels) {
        ++C.labelReads;
        L got = loaded.getEdgeLabel(kv.first.first, kv.first.second, false);
        if (!(got == kv.second)) {
            o << "loaded graph: label of (" << kv.first.first << "," << kv.first.second << ") is " << LT<L>::str(got) << ", expected " << LT<L>::str(kv.second);
            return o.str();
        }
    }
    if (original && (!(loaded == *original) || (loaded != *original) || !(*original == loaded))) return "loaded graph, resized to the original size, is not == the original";
    return "";
}

// ---- (a) round trip ---------------------------------------------------------
template <template <class...> class GT, class L> void roundtrip(Reporter &R, uint64_t sub) {
    constexpr bool directed = Dir<GT>::value;
    std::string cls = std::string(Dir<GT>::name()) + "<" + lname<L>() + ">";
    Rng r = caseRng(R.args.seed, hashStr(cls + "rt"), sub);
    GraphSpec s = sub % 4 == 3 ? ioSpecSparse(r, directed) : (sub % 40 == 6 ? ioSpecBig(r, directed) : ioSpec(r, directed));
    if (sub % 40 == 6) ++C.bigFiles;
    if (s.n > 64) ++C.largeIndexGraphs;
    if (s.n == 0) ++C.zeroVertexGraphs;
    if (s.edges.empty()) ++C.noEdgeGraphs;
    if (s.n > usedSize(s)) ++C.isolatedTails;
    std::map<Edge, L> labels;
    GT<L> g(s.n);
    for (auto &e : insertionOrder(s, 2, r)) {
        L l = Codec<L>::make(1 + r.below(1000000));
        labels[canon(directed, e.first, e.second)] = l;
        g.addEdge(e.first, e.second, l);
    }
    std::string path = ioTmp(R, "rt.txt");
    std::string content;
    R.describeCase = [&] { return "{\"class\": " + q(cls) + ", \"graph\": " + q(s.str()) + ", \"file\": " + q(content) + "}"; };
    R.distinct.insert(mix64(s.hash(), hashStr(cls)));
    std::string err;
    try {
        writeText<GT, L>(g, path);
        content = readBytes(path);
        // independent parse of what was written
        std::vector<std::string> lines;
        {
            size_t st = 0;
            while (st < content.size()) {
                size_t nl = content.find('\n', st);
                if (nl == std::string::npos) { lines.push_back(content.substr(st)); break; }
                lines.push_back(content.substr(st, nl - st));
                st = nl + 1;
            }
        }
        // The statement fixes what the loader accepts, not what the writer emits; the written file is read here with the
        // documented grammar only (comment lines anywhere, runs of blanks / tabs around the two vertex tokens, the rest of the
        // line is the label, final newline optional) and must hold the graph's edges, each once
        std::multiset<std::string> want, got;
        for (auto &kv : labels) {
            std::string t = Codec<L>::enc(kv.second);
            want.insert(std::to_string(kv.first.first) + " " + std::to_string(kv.first.second) + (LT<L>::labelled ? " " + t : ""));
        }
        for (size_t i = 0; i < lines.size() && err.empty(); ++i) {
            const std::string &ln = lines[i];
            if (!ln.empty() && ln[0] == '#') continue;
            if (ln.empty() && i + 1 == lines.size()) continue;
            ++C.linesParsedIndependently;
            const char *bl = " \t";
            size_t p1 = ln.find_first_not_of(bl);
            size_t p2 = p1 == std::string::npos ? p1 : ln.find_first_of(bl, p1);
            size_t p3 = p2 == std::string::npos ? p2 : ln.find_first_not_of(bl, p2);
            if (p1 == std::string::npos || p2 == std::string::npos || p3 == std::string::npos) { err = "written line '" + ln + "' does not hold two vertex tokens"; break; }
            size_t p4 = ln.find_first_of(bl, p3);
            size_t p5 = p4 == std::string::npos ? p4 : ln.find_first_not_of(bl, p4);
            std::string a = ln.substr(p1, p2 - p1), b = ln.substr(p3, p4 == std::string::npos ? std::string::npos : p4 - p3);
            std::string rest = p5 == std::string::npos ? "" : ln.substr(p5);
            if (a.find_first_not_of("0123456789") != std::string::npos || b.find_first_not_of("0123456789") != std::string::npos) {
                err = "written line '" + ln + "' does not start with two vertex indices";
                break;
            }
            VertexIndex ia = (VertexIndex)std::stoul(a), ib = (VertexIndex)std::stoul(b);
            Edge k = canon(directed, ia, ib);
            got.insert(std::to_string(k.first) + " " + std::to_string(k.second) + (LT<L>::labelled ? " " + rest : ""));
        }
        if (err.empty() && got != want) err = "written file does not hold exactly one line per edge: " + std::to_string(got.size()) + " lines for " + std::to_string(want.size()) + " edges";
        if (!err.empty()) {
            R.violation(cls + "/writeTextEdgeList/file-contents", err + "; graph " + s.str());
            unlink(path.c_str());
            return;
        }
        auto pr = loadIndexed<GT, L>(path);
        unlink(path.c_str());
        ++C.roundTrips;
        R.digest(s.n > 64 ? content : content + snapshot(pr.first));
        err = compareLoaded<GT<L>, L>(pr.first, s, labels, &g);
        if (!err.empty()) { R.violation(cls + "/text-round-trip/" + err.substr(0, err.find_first_of(":(")), err + "; graph " + s.str()); return; }
        if (sub % 3 == 0) {
            // a loaded graph is a graph: writing it and loading it again must round-trip as well
            writeText<GT, L>(pr.first, path);
            auto pr2 = loadIndexed<GT, L>(path);
            unlink(path.c_str());
            ++C.secondRoundTrips;
            err = compareLoaded<GT<L>, L>(pr2.first, s, labels, &g);
            if (!err.empty()) R.violation(cls + "/text-round-trip-of-a-loaded-graph/" + err.substr(0, err.find_first_of(":(")), err + "; graph " + s.str());
        }
    } catch (std::exception &ex) {
        unlink(path.c_str());
        R.violation(cls + "/text-round-trip/threw", std::string("threw ") + ex.what() + "; graph " + s.str());
    }
    if (sub < 3 && R.samples.size() < 6) R.sample("{\"class\": " + q(cls) + ", \"graph\": " + q(s.str()) + ", \"written_file\": " + q(content.substr(0, 300)) + "}");
}

std::string wsRun(Rng &r, bool allowEmpty) {
    unsigned n = allowEmpty ? r.u(4) : 1 + r.u(4);
    std::string s;
    for (unsigned i = 0; i < n; ++i) s += r.chance(1, 3) ? '\t' : ' ';
    if (n > 1) ++C.whitespaceRuns;
    return s;
}
std::string commentLine(Rng &r) {
    static const char *c[] = {"#", "# a comment", "#0 1 2", "##", "#\t tabs", "# Vertex1 Vertex2 Label", "#-1 -1"};
    ++C.commentLines;
    return c[r.u(7)];
}

// ---- (b) documented format --------------------------------------------------
template <template <class...> class GT, class L> void format(Reporter &R, uint64_t sub) {
    constexpr bool directed = Dir<GT>::value;
    std::string cls = std::string(Dir<GT>::name()) + "<" + lname<L>() + ">";
    Rng r = caseRng(R.args.seed, hashStr(cls + "fmt"), sub);
    GraphSpec s = ioSpec(r, directed);
    std::map<Edge, L> labels;
    std::string text;
    auto maybeComments = [&] {
        while (r.chance(1, 4)) text += commentLine(r) + "\n";
    };
    auto order = insertionOrder(s, 2, r);
    // one file in five is column-aligned the way a person would write it: decimal indices padded with zeros to one width
    unsigned padTo = r.chance(1, 5) ? 2 + r.u(3) : 0;
    if (padTo) ++C.zeroPaddedFiles;
    auto idx = [&](VertexIndex v) {
        std::string t = std::to_string(v);
        while (t.size() < padTo) t = "0" + t;
        return t;
    };
    for (size_t i = 0; i < order.size(); ++i) {
        maybeComments();
        auto &e = order[i];
        L l = Codec<L>::make(1 + r.below(1000000));
        std::string lt = Codec<L>::enc(l);
        std::string line = wsRun(r, true) + idx(e.first) + wsRun(r, false) + idx(e.second);
        if (LT<L>::labelled && !lt.empty()) {
            line += wsRun(r, false) + lt;
            if (std::is_same<L, std::string>::value && r.chance(1, 5)) {
                // trailing blanks belong to the rest of the line, i.e. to the label
                std::string tr = wsRun(r, false);
                line += tr;
                lt += tr;
                l = Codec<L>::dec(lt);
            } else if ((std::is_same<L, int>::value || std::is_same<L, double>::value) && r.chance(1, 5)) {
                line += wsRun(r, false); // numeric parsers stop at the blank
            }
        } else {
            if (LT<L>::labelled) l = Codec<L>::dec("");
            line += wsRun(r, true);
        }
        labels[canon(directed, e.first, e.second)] = l;
        text += line;
        bool last = i + 1 == order.size();
        if (!last || r.chance(3, 4)) text += "\n";
        else ++C.filesWithoutFinalNewline;
    }
    if (r.chance(1, 3) && (text.empty() || text.back() == '\n')) {
        text += commentLine(r);
        if (r.chance(1, 2)) text += "\n";
    }
    std::string path = ioTmp(R, "fmt.txt");
    R.describeCase = [&] { return "{\"class\": " + q(cls) + ", \"graph\": " + q(s.str()) + ", \"file\": " + q(text) + "}"; };
    R.distinct.insert(hashStr(text + cls));
    // empty-label files only make sense when the label parser accepts "": int/double/struct codecs do not
    if (LT<L>::labelled && !std::is_same<L, std::string>::value) {
        // all labels were non-empty by construction of Codec::make for these kinds
    }
    try {
        writeBytes(path, text);
        auto pr = loadIndexed<GT, L>(path);
        unlink(path.c_str());
        ++C.formatFiles;
        std::string err = compareLoaded<GT<L>, L>(pr.first, s, labels, nullptr);
        if (!err.empty()) R.violation(cls + "/text-format/" + err.substr(0, err.find_first_of(":(")), err + "; file " + q(text));
    } catch (std::exception &ex) {
        unlink(path.c_str());
        R.violation(cls + "/text-format/threw", std::string("well-formed file rejected: ") + ex.what() + "; file " + q(text));
    }
    if (sub < 3 && R.samples.size() < 6) R.sample("{\"class\": " + q(cls) + ", \"well_formed_file\": " + q(text.substr(0, 300)) + "}");
}

// ---- (c) vertex-name loader -------------------------------------------------
std::string randomName(Rng &r) {
    static const char cs[] = "abcdefghijklmnopqrstuvwxyzABCDEFGHIJKLMNOPQRSTUVWXYZ0123456789_#.:-+/";
    unsigned n = 1 + r.u(8);
    std::string s;
    for (unsigned i = 0; i < n; ++i) s += cs[r.u(sizeof cs - 1)];
    return s;
}
template <template <class...> class GT, class L> void names(Reporter &R, uint64_t sub) {
    constexpr bool directed = Dir<GT>::value;
    std::string cls = std::string(Dir<GT>::name()) + "<" + lname<L>() + ">";
    Rng r = caseRng(R.args.seed, hashStr(cls + "names"), sub);
    unsigned k = 1 + r.u(9);
    std::vector<std::string> pool;
    std::set<std::string> seenNames;
    while (pool.size() < k) {
        std::string nm = r.chance(1, 6) ? std::to_string(r.u(30)) : randomName(r); // numeric-looking names are names too
        if (seenNames.insert(nm).second) pool.push_back(nm);
    }
    unsigned m = r.u(k * 2 + 1);
    std::string text;
    std::vector<std::string> firstSeen;
    std::map<std::string, VertexIndex> index;
    std::map<Edge, L> labels;
    std::set<Edge> used;
    GraphSpec s;
    s.directed = directed;
    for (unsigned t = 0; t < m; ++t) {
        const std::string &a = pool[r.u(k)], &b = r.chance(1, 6) ? a : pool[r.u(k)];
        // names are numbered in order of first appearance
        auto idx = [&](const std::string &nm) {
            auto it = index.find(nm);
            if (it != index.end()) return it->second;
            VertexIndex v = (VertexIndex)firstSeen.size();
            index[nm] = v;
            firstSeen.push_back(nm);
            return v;
        };
        // decide the pair before numbering so that a skipped duplicate does not number names
        VertexIndex ia = index.count(a) ? index[a] : (VertexIndex)firstSeen.size();
        VertexIndex ib = index.count(b) ? index[b] : (a == b ? ia : (VertexIndex)(firstSeen.size() + (index.count(a) ? 0 : 1)));
        Edge key = canon(directed, ia, ib);
        if (used.count(key)) continue; // keep the file duplicate-free
        idx(a);
        idx(b);
        used.insert(key);
        s.edges.push_back(key);
        if (r.chance(1, 5)) text += commentLine(r) + "\n";
        L l = Codec<L>::make(1 + r.below(1000000));
        std::string lt = Codec<L>::enc(l);
        std::string lead = wsRun(r, true);
        if (a[0] == '#' && lead.empty()) lead = " "; // a name may start with '#' as long as the line does not
        std::string line = lead + a + wsRun(r, false) + b;
        if (LT<L>::labelled && !lt.empty()) line += wsRun(r, false) + lt;
        else if (LT<L>::labelled) l = Codec<L>::dec("");
        labels[key] = l;
        text += line + "\n";
    }
    s.n = (unsigned)firstSeen.size();
    std::string path = ioTmp(R, "names.txt");
    R.describeCase = [&] { return "{\"class\": " + q(cls) + ", \"file\": " + q(text) + "}"; };
    R.distinct.insert(hashStr(text + cls + "n"));
    try {
        writeBytes(path, text);
        std::pair<GT<L>, std::vector<std::string>> pr = [&] {
            if constexpr (std::is_same<L, NoLabel>::value) return io::loadTextVertexLabeledEdgeList<GT, NoLabel>(path);
            else {
                std::function<L(const std::string &)> dec = [](const std::string &x) { return Codec<L>::dec(x); };
                return io::loadTextVertexLabeledEdgeList<GT, L>(path, dec);
            }
        }();
        unlink(path.c_str());
        ++C.nameFiles;
        std::ostringstream o;
        if (pr.second.size() < firstSeen.size()) o << "name table has " << pr.second.size() << " entries for " << firstSeen.size() << " distinct names";
        else
            for (size_t i = 0; i < firstSeen.size(); ++i) {
                ++C.namesChecked;
                if (pr.second[i] != firstSeen[i]) {
                    o << "names[" << i << "] is '" << pr.second[i] << "', the name that appeared " << i << "-th is '" << firstSeen[i] << "'";
                    break;
                }
            }
        std::string err = o.str();
        if (err.empty()) err = compareLoaded<GT<L>, L>(pr.first, s, labels, nullptr, false);
        if (!err.empty()) R.violation(cls + "/vertex-name-loader/" + err.substr(0, err.find_first_of(":([")), err + "; file " + q(text));
    } catch (std::exception &ex) {
        unlink(path.c_str());
        R.violation(cls + "/vertex-name-loader/threw", std::string("well-formed file rejected: ") + ex.what() + "; file " + q(text));
    }
    if (sub < 2 && R.samples.size() < 6) R.sample("{\"class\": " + q(cls) + ", \"name_file\": " + q(text.substr(0, 300)) + "}");
}

// ---- C15 (b): malformed text ------------------------------------------------
std::string fuzzToken(Rng &r) {
    switch (r.u(18)) {
    case 16: return std::to_string(4294967296ull + r.u(12)); // wraps to a small index in a parser that reads 64 bits and casts to 32
    case 17: return r.chance(1, 2) ? "18446744073709551615" : "9223372036854775808";
    case 0: return std::to_string(r.u(12));
    case 1: return std::to_string(r.u(2001));
    case 2: return "-" + std::to_string(1 + r.u(9));
    case 3: return "-1";
    case 4: return "2147483648";
    case 5: return "99999999999999999999";
    case 6: return std::to_string(r.u(10)) + "abc";
    case 7: return "abc";
    case 8: return "";
    case 9: return "+" + std::to_string(r.u(10));
    case 10: return "0x1f";
    case 11: return "1e3";
    case 12: return std::string(1, (char)(1 + r.u(255)));
    case 13: return "#";
    case 14: return "-0";
    default: return std::to_string(r.u(6));
    }
}
std::string fuzzText(Rng &r) {
    std::string t;
    unsigned lines = r.u(9);
    for (unsigned i = 0; i < lines; ++i) {
        std::string ln;
        switch (r.u(12)) {
        case 0: break; // blank line
        case 1: ln = fuzzToken(r); break; // one token
        case 2: ln = " " + wsRun(r, true); break; // blanks only
        case 3: ln = wsRun(r, false) + "#" + fuzzToken(r); break; // '#' after leading blanks
        case 4: {
            unsigned n = 1 + r.u(40);
            for (unsigned k = 0; k < n; ++k) ln += (char)r.u(256); // stray bytes
            break;
        }
        case 5: ln = fuzzToken(r) + " " + fuzzToken(r) + " " + std::string(1 + r.u(3000), 'L'); break; // very long line
        case 6: ln = std::string(1, '\0') + fuzzToken(r) + " " + fuzzToken(r); break;
        case 7: ln = fuzzToken(r) + wsRun(r, false) + fuzzToken(r) + wsRun(r, false) + fuzzToken(r) + " " + fuzzToken(r); break;
        case 8: ln = "#" + fuzzToken(r); break;
        case 9: ln = fuzzToken(r) + "\r"; break;
        default: ln = wsRun(r, true) + fuzzToken(r) + wsRun(r, false) + fuzzToken(r) + wsRun(r, true); break;
        }
        for (auto &c : ln)
            if (c == '\n') c = ' ';
        t += ln;
        if (i + 1 < lines || r.chance(2, 3)) t += "\n";
    }
    return filterAllocatable(t);
}
template <class G> std::string surviveSnapshot(const G &g) {
    std::string s = snapshot(g);
    std::vector<Edge> es;
    if (!collectEdges(g, g.getEdgeNumber() * 2 + g.getSize() * g.getSize() + 8, es)) return "edges() of the returned graph does not end";
    if (es.size() != g.getEdgeNumber()) return "returned graph: edges() yields " + std::to_string(es.size()) + " edges, getEdgeNumber says " + std::to_string(g.getEdgeNumber());
    (void)s;
    return "";
}
template <template <class...> class GT, class L> std::string fuzzOne(const std::string &path, int loader, int *excOut) {
    std::string what, post;
    Exc ex = classify([&] {
        if (loader == 0) {
            auto pr = loadIndexed<GT, L>(path);
            post = surviveSnapshot(pr.first);
        } else {
            if constexpr (std::is_same<L, NoLabel>::value) {
                auto pr = io::loadTextVertexLabeledEdgeList<GT, NoLabel>(path);
                post = surviveSnapshot(pr.first);
            } else {
                std::function<L(const std::string &)> dec = [](const std::string &x) { return Codec<L>::dec(x); };
                auto pr = io::loadTextVertexLabeledEdgeList<GT, L>(path, dec);
                post = surviveSnapshot(pr.first);
            }
        }
    }, &what);
    *excOut = ex;
    if (ex == EX_UNKNOWN) return "exception: loader threw something not derived from std::exception";
    if (ex == EX_NONE && !post.empty()) return "returned-graph: " + post;
    return "";
}
template <template <class...> class GT, class L> void fuzz(Reporter &R, uint64_t sub, bool isolate) {
    std::string cls = std::string(Dir<GT>::name()) + "<" + lname<L>() + ">";
    Rng r = caseRng(R.args.seed, hashStr(cls + "fuzz"), sub);
    std::string text = fuzzText(r);
    int loader = (int)(sub % 2);
    std::string path = ioTmp(R, "fuzz.txt");
    R.describeCase = [&] { return "{\"class\": " + q(cls) + ", \"loader\": " + q(loader ? "loadTextVertexLabeledEdgeList" : "loadTextEdgeList") + ", \"file\": " + q(text) + "}"; };
    R.distinct.insert(hashStr(text));
    writeBytes(path, text);
    ++C.fuzzInputs;
    std::string keyBase = cls + "/" + (loader ? "loadTextVertexLabeledEdgeList" : "loadTextEdgeList") + "/malformed-text";
    int exc = 0;
    if (isolate) {
        Isolated ir = runIsolated([&] { int e; return fuzzOne<GT, L>(path, loader, &e); });
        if (ir.status == Isolated::MISMATCH) R.violation(keyBase + "/" + ir.text.substr(0, ir.text.find(':')), ir.text + "; file " + q(text));
        else if (ir.status == Isolated::CRASH) R.violation(keyBase + "/" + ir.symptom, ir.text + "; file " + q(text));
    } else {
        std::string e = fuzzOne<GT, L>(path, loader, &exc);
        ++C.fuzzByExc[exc];
        if (exc == EX_NONE) ++C.fuzzReturned; else ++C.fuzzThrew;
        if (!e.empty()) R.violation(keyBase + "/" + e.substr(0, e.find(':')), e + "; file " + q(text));
    }
    unlink(path.c_str());
    if (sub < 40 && sub % 13 == 0 && R.samples.size() < 6) R.sample("{\"class\": " + q(cls) + ", \"malformed_file\": " + q(text.substr(0, 200)) + "}");
}

void flush(Reporter &R) {
    C.oc.flush(R);
    R.count("text_round_trips", C.roundTrips);
    R.count("hand_written_files_with_zero_padded_indices", C.zeroPaddedFiles);
    R.count("round_trips_of_a_loaded_graph", C.secondRoundTrips);
    R.count("graphs_with_large_vertex_indices", C.largeIndexGraphs);
    R.count("files_of_thousands_of_lines_round_tripped", C.bigFiles);
    R.count("written_lines_parsed_independently", C.linesParsedIndependently);
    R.count("well_formed_files_loaded", C.formatFiles);
    R.count("comment_lines_generated", C.commentLines);
    R.count("whitespace_runs_longer_than_one", C.whitespaceRuns);
    R.count("files_without_final_newline", C.filesWithoutFinalNewline);
    R.count("name_files_loaded", C.nameFiles);
    R.count("names_checked", C.namesChecked);
    R.count("label_reads", C.labelReads);
    R.count("zero_vertex_graphs", C.zeroVertexGraphs);
    R.count("graphs_without_edges", C.noEdgeGraphs);
    R.count("graphs_with_isolated_tail", C.isolatedTails);
    R.count("malformed_text_inputs", C.fuzzInputs);
    R.count("malformed_text_loader_returned", C.fuzzReturned);
    R.count("malformed_text_loader_threw_std_exception", C.fuzzThrew);
    for (int i = 1; i < 6; ++i)
        if (C.fuzzByExc[i]) R.count(std::string("malformed_text_threw_") + excName(i), C.fuzzByExc[i]);
    C = Counters();
}

template <template <class...> class GT, class L> void dispatch(Reporter &R, const std::string &mode, uint64_t sub, bool isolate) {
    if (mode == "roundtrip") roundtrip<GT, L>(R, sub);
    else if (mode == "format") format<GT, L>(R, sub);
    else if (mode == "names") names<GT, L>(R, sub);
    else if (mode == "fuzz") fuzz<GT, L>(R, sub, isolate);
}

#ifndef VK_PART
#define VK_PART -1
#endif
#define PART(p) (VK_PART < 0 || VK_PART == (p))
struct Init {
    Init() {
        static RegisterIo reg({"text", [](Reporter &R, const std::string &mode, uint64_t sub, bool isolate) {
                                   if (sub == (uint64_t)-1) { flush(R); return; }
                                   // 10 (class,label) combinations; fuzz uses the first 6 of them
                                   unsigned ncombo = mode == "fuzz" ? 6 : 10;
                                   unsigned combo = (unsigned)(sub % ncombo);
                                   uint64_t s2 = sub / ncombo;
                                   switch (combo) {
#if PART(0)
                                   case 0: dispatch<LabeledDirectedGraph, NoLabel>(R, mode, s2, isolate); break;
                                   case 1: dispatch<LabeledUndirectedGraph, NoLabel>(R, mode, s2, isolate); break;
#endif
#if PART(1)
                                   case 2: dispatch<LabeledDirectedGraph, int>(R, mode, s2, isolate); break;
                                   case 3: dispatch<LabeledUndirectedGraph, int>(R, mode, s2, isolate); break;
#endif
#if PART(2)
                                   case 4: dispatch<LabeledDirectedGraph, std::string>(R, mode, s2, isolate); break;
                                   case 5: dispatch<LabeledUndirectedGraph, std::string>(R, mode, s2, isolate); break;
#endif
#if PART(3)
                                   case 6: dispatch<LabeledDirectedGraph, double>(R, mode, s2, isolate); break;
                                   case 7: dispatch<LabeledUndirectedGraph, double>(R, mode, s2, isolate); break;
#endif
#if PART(4)
                                   case 8: dispatch<LabeledDirectedGraph, UserLabel>(R, mode, s2, isolate); break;
                                   case 9: dispatch<LabeledUndirectedGraph, UserLabel>(R, mode, s2, isolate); break;
#endif
                                   default: break;
                                   }
                               },
                               {"roundtrip", "format", "names", "fuzz"}});
    }
} init;
} // namespace
} // namespace vf
