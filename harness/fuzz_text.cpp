// C15 (thorough tier): coverage-guided fuzzing of the text loaders with libFuzzer.
// Built with clang++ -fsanitize=fuzzer,address,undefined. The input bytes are
// filtered exactly like the grammar fuzz (vertex numbers stay allocatable) and
// offered as a text edge list to three loader instantiations. Oracle: the loader
// returns or throws something derived from std::exception; anything else -
// non-std exception (abort below), signal, sanitizer report - ends the process
// and libFuzzer keeps the input as an artifact.
#include "io_common.hpp"

#include <cstdio>
#include <cstdlib>

namespace vf {
std::vector<IoRunner> &ioRunners() {
    static std::vector<IoRunner> r;
    return r;
}
std::vector<ShapeRunner> &shapeRunners() {
    static std::vector<ShapeRunner> r;
    return r;
}
} // namespace vf

using namespace BaseGraph;

static std::string pathFor() {
    static std::string p;
    if (p.empty()) {
        const char *d = getenv("VERIF_FUZZ_DIR");
        p = std::string(d ? d : "/tmp") + "/fuzz-" + std::to_string(getpid()) + ".txt";
    }
    return p;
}

// a returned graph must at least be traversable and agree with itself on its edge count
template <class G> static void touch(const G &g) {
    std::vector<vf::Edge> es;
    if (!vf::collectEdges(g, g.getEdgeNumber() * 2 + 16, es) || es.size() != g.getEdgeNumber()) {
        fprintf(stderr, "VERIF: returned graph is not traversable / edges() disagrees with getEdgeNumber\n");
        abort();
    }
}

template <class F> static void offer(F f) {
    try {
        f();
    } catch (std::exception &) {
        // allowed
    } catch (...) {
        fprintf(stderr, "VERIF: loader threw something not derived from std::exception\n");
        abort();
    }
}

extern "C" int LLVMFuzzerTestOneInput(const uint8_t *data, size_t size) {
    std::string text = vf::filterAllocatable(std::string((const char *)data, size));
    const std::string path = pathFor();
    if (!vf::writeBytes(path, text)) return 0;
    offer([&] {
        auto pr = io::loadTextEdgeList<LabeledDirectedGraph, NoLabel>(path);
        touch(pr.first);
    });
    offer([&] {
        std::function<int(const std::string &)> dec = [](const std::string &s) { return std::stoi(s); };
        auto pr = io::loadTextEdgeList<LabeledUndirectedGraph, int>(path, dec);
        touch(pr.first);
    });
    offer([&] {
        std::function<std::string(const std::string &)> dec = [](const std::string &s) { return s; };
        auto pr = io::loadTextVertexLabeledEdgeList<LabeledDirectedGraph, std::string>(path, dec);
        touch(pr.first);
    });
    return 0;
}
