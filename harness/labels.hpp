// Label kinds used by the monitors: NoLabel, arithmetic types, std::string and
// a user struct. make(stamp) gives a value that is unique per stamp (as far as
// the type allows), so that a stale label is never mistaken for the right one.
#pragma once
#include "BaseGraph/types.h"
#include <cstdint>
#include <sstream>
#include <string>

namespace vf {

struct UserLabel {
    int a = 0;
    std::string b;
    bool operator==(const UserLabel &o) const { return a == o.a && b == o.b; }
    bool operator!=(const UserLabel &o) const { return !(*this == o); }
    bool operator<(const UserLabel &o) const { return a != o.a ? a < o.a : b < o.b; }
};
inline std::ostream &operator<<(std::ostream &s, const UserLabel &l) {
    return s << "{" << l.a << "," << l.b << "}";
}

// a label type without data members (a tag): every value equals every other
struct EmptyLabel {
    bool operator==(const EmptyLabel &) const { return true; }
    bool operator!=(const EmptyLabel &) const { return false; }
    bool operator<(const EmptyLabel &) const { return false; }
};
inline std::ostream &operator<<(std::ostream &s, const EmptyLabel &) { return s << "{}"; }

template <class L> struct LT;

template <> struct LT<BaseGraph::NoLabel> {
    static constexpr bool labelled = false;
    static constexpr bool singleValued = false;
    static const char *name() { return "NoLabel"; }
    static BaseGraph::NoLabel make(uint64_t) { return {}; }
    static std::string str(const BaseGraph::NoLabel &) { return "-"; }
};
template <> struct LT<int> {
    static constexpr bool labelled = true;
    static constexpr bool singleValued = false;
    static const char *name() { return "int"; }
    // never 0 (= int()), sign alternates
    static int make(uint64_t s) { return (s & 1) ? (int)(s % 1000000007ULL) + 1 : -(int)(s % 1000000007ULL) - 1; }
    static std::string str(int l) { return std::to_string(l); }
};
template <> struct LT<unsigned> {
    static constexpr bool labelled = true;
    static constexpr bool singleValued = false;
    static const char *name() { return "unsigned"; }
    static unsigned make(uint64_t s) { return (unsigned)(s % 4000000007ULL) + 1; }
    static std::string str(unsigned l) { return std::to_string(l); }
};
template <> struct LT<double> {
    static constexpr bool labelled = true;
    static constexpr bool singleValued = false;
    static const char *name() { return "double"; }
    static double make(uint64_t s) { return ((s & 1) ? 1.0 : -1.0) * (double)(s % 100000000ULL + 1) / 16.0; }
    static std::string str(double l) {
        char b[40];
        snprintf(b, sizeof b, "%.17g", l);
        return b;
    }
};
template <> struct LT<char> {
    static constexpr bool labelled = true;
    static constexpr bool singleValued = false;
    static const char *name() { return "char"; }
    static char make(uint64_t s) { return (char)(s % 255 + 1); } // never '\0' (= char())
    static std::string str(char l) { return std::to_string((int)l); }
};
template <> struct LT<std::string> {
    static constexpr bool labelled = true;
    static constexpr bool singleValued = false;
    static const char *name() { return "string"; }
    static std::string make(uint64_t s) {
        // some long enough to leave the small-string buffer
        std::string r = "L" + std::to_string(s);
        if (s % 3 == 0) r += std::string(20 + s % 7, 'x');
        return r;
    }
    static std::string str(const std::string &l) { return l; }
};
template <> struct LT<EmptyLabel> {
    static constexpr bool labelled = true;
    static constexpr bool singleValued = true; // no two values differ: "a different label" does not exist
    static const char *name() { return "empty-struct"; }
    static EmptyLabel make(uint64_t) { return {}; }
    static std::string str(const EmptyLabel &) { return "{}"; }
};
template <> struct LT<UserLabel> {
    static constexpr bool labelled = true;
    static constexpr bool singleValued = false;
    static const char *name() { return "struct"; }
    static UserLabel make(uint64_t s) {
        UserLabel l;
        l.a = (int)(s % 1000003ULL) + 1;
        l.b = "u" + std::to_string(s / 7) + ((s % 2) ? std::string(24, 'y') : "");
        return l;
    }
    static std::string str(const UserLabel &l) { return "{" + std::to_string(l.a) + "," + l.b + "}"; }
};

} // namespace vf
