// History monitor: shared declarations. A "runner" drives one graph class (one
// label kind) through generated call histories and compares the real object
// with an executable model after every call.
#pragma once
#include "common.hpp"
#include "labels.hpp"
#include "observe.hpp"
#include <climits>

namespace vf {

struct HistConfig {
    std::string prop;
    bool force = false;     // C16: force=true insertions and removeDuplicateEdges in the mix
    bool obsStruct = true;  // structural observers (C01/C02 and the "unweighted observers" clauses)
    bool obsLabel = false;  // label / weight / multiplicity observers
    bool pairMode = false;  // C06: pairs of histories, operator==
    unsigned maxLen = 80;
    unsigned maxN = 7;
    unsigned scaleEvery = 50; // every k-th history is a "scale" history: 12-70 vertices, a hub, hundreds of calls, checked every 8th call
};

struct Runner {
    std::string family; // simple | multi | weighted
    std::string cls;    // e.g. LabeledDirectedGraph<int>
    std::string label;  // label kind name
    bool directed;
    std::function<void(Reporter &, const HistConfig &, uint64_t sub)> run;
};

std::vector<Runner> &runners();
struct RegisterRunner {
    RegisterRunner(Runner r) { runners().push_back(std::move(r)); }
};

// how an edge disappeared (C03/C04/C05 targeted counters)
enum Gone { G_NONE = 0, G_REMOVE, G_LOOPS, G_VERTEX_SRC, G_VERTEX_DST, G_CLEAR, G_MULT_ZERO, G_REMOVE_MULTI, G_COUNT };
inline const char *goneName(int g) {
    static const char *n[] = {"none", "removeEdge", "removeSelfLoops", "removeVertexFromEdgeList_as_source",
                              "removeVertexFromEdgeList_as_destination", "clearEdges", "setEdgeMultiplicity0", "removeMultiedge"};
    return n[g];
}

// Picks vertex pairs with a bias towards existing edges, self-loops and
// recently touched vertices.
struct PairPicker {
    VertexIndex last1 = 0, last2 = 0;
    int hub = -1; // scale mode: half of the fresh pairs touch this vertex, so that it collects dozens of neighbours
    template <class Map> Edge pick(Rng &r, unsigned n, const Map &present, bool directed, int wantPresent /* -1 any, 0 absent-ish, 1 present-ish */) {
        Edge e;
        unsigned roll = r.u(100);
        if (hub >= 0 && (unsigned)hub < n && wantPresent != 1 && r.chance(2, 3)) {
            e.first = (VertexIndex)hub;
            e.second = r.u(n);
            if (r.chance(1, 5)) std::swap(e.first, e.second);
            last1 = e.first;
            last2 = e.second;
            return e;
        }
        bool usePresent = !present.empty() && (wantPresent == 1 ? roll < 80 : wantPresent == 0 ? roll < 15 : roll < 45);
        if (usePresent) {
            auto it = present.begin();
            std::advance(it, r.u((unsigned)present.size()));
            if (hub >= 0 && r.chance(1, 2)) {
                // an edge of the hub, when there is one at or after a random position
                auto jt = it;
                for (unsigned hops = 0; jt != present.end() && hops < 64; ++jt, ++hops)
                    if (jt->first.first == (VertexIndex)hub || jt->first.second == (VertexIndex)hub) { it = jt; break; }
            }
            e = it->first;
            if (!directed && r.chance(1, 2)) std::swap(e.first, e.second);
        } else {
            unsigned k = r.u(100);
            if (k < 15) {
                e.first = e.second = r.u(n);
            } else if (k < 40) {
                e.first = r.chance(1, 2) ? last1 % n : last2 % n;
                e.second = r.u(n);
                if (r.chance(1, 2)) std::swap(e.first, e.second);
            } else {
                e.first = r.u(n);
                e.second = r.u(n);
            }
        }
        last1 = e.first;
        last2 = e.second;
        return e;
    }
};

// A call the library must reject, placed inside a history: a vertex index that is out of range (size, size+1, size+2 or
// UINT_MAX, in the first, the second or both positions) or a resize to fewer vertices. Such a call throws, so the sequence
// denotes the same graph with or without it - also after a later resize has made the rejected index a vertex, which is
// when anything the rejected call left behind becomes observable. Whether the call IS rejected is C07's verdict: a history
// in which it is not is abandoned, not reported.
struct RejectedArgs {
    VertexIndex a = 0, b = 0;
    bool shrink = false;
    unsigned newSize = 0;
    unsigned growBy = 0; // a resize by this many vertices makes every index of the call valid (0: not worth it, UINT_MAX)
};
inline RejectedArgs pickRejected(Rng &r, unsigned n) {
    RejectedArgs x;
    if (n > 0 && r.chance(1, 6)) {
        x.shrink = true;
        x.newSize = r.u(n);
        return x;
    }
    bool huge = r.chance(1, 8);
    VertexIndex bad = huge ? UINT_MAX : n + r.u(3);
    VertexIndex bad2 = huge ? UINT_MAX - r.u(2) : n + r.u(3);
    VertexIndex ok = n ? r.u(n) : bad2;
    unsigned pos = r.u(4);
    if (pos == 0) { x.a = bad; x.b = ok; }
    else if (pos == 1) { x.a = ok; x.b = bad; }
    else if (pos == 2) { x.a = bad; x.b = bad2; }
    else { x.a = bad; x.b = bad; }
    VertexIndex mx = 0;
    if (x.a >= n) mx = std::max(mx, x.a);
    if (x.b >= n) mx = std::max(mx, x.b);
    x.growBy = huge ? 0 : mx - n + 1;
    return x;
}

} // namespace vf
