// Full observable state of a graph as a string (order-sensitive), through the
// public API only. Used for "changes nothing" oracles and for digests.
#pragma once
#include "labels.hpp"
#include "observe.hpp"

namespace vf {

template <class G> void snapLists(const G &g, std::ostringstream &o) {
    size_t n = g.getSize();
    o << "n=" << n << " m=" << g.getEdgeNumber() << " adj[";
    for (VertexIndex i = 0; i < n; ++i) {
        o << i << ":";
        for (auto j : g.getOutNeighbours(i)) o << j << ",";
        o << ";";
    }
    o << "]";
}

template <class L> std::string snapshot(const BaseGraph::LabeledDirectedGraph<L> &g) {
    std::ostringstream o;
    snapLists(g, o);
    size_t n = g.getSize();
    o << " labels[";
    for (VertexIndex i = 0; i < n; ++i)
        for (VertexIndex j = 0; j < n; ++j) {
            L l = g.getEdgeLabel(i, j, false);
            if (!(l == L()) || g.hasEdge(i, j)) o << i << ">" << j << "=" << LT<L>::str(l) << ";";
        }
    o << "]";
    return o.str();
}
template <class L> std::string snapshot(const BaseGraph::LabeledUndirectedGraph<L> &g) {
    std::ostringstream o;
    snapLists(g, o);
    size_t n = g.getSize();
    o << " labels[";
    for (VertexIndex i = 0; i < n; ++i)
        for (VertexIndex j = 0; j < n; ++j) {
            L l = g.getEdgeLabel(i, j, false);
            if (!(l == L()) || g.hasEdge(i, j)) o << i << "-" << j << "=" << LT<L>::str(l) << ";";
        }
    o << "]";
    return o.str();
}
inline std::string snapshot(const BaseGraph::DirectedMultigraph &g) {
    std::ostringstream o;
    snapLists(g, o);
    size_t n = g.getSize();
    o << " total=" << g.getTotalEdgeNumber() << " mult[";
    for (VertexIndex i = 0; i < n; ++i)
        for (VertexIndex j = 0; j < n; ++j)
            if (unsigned m = g.getEdgeMultiplicity(i, j)) o << i << ">" << j << "=" << m << ";";
    o << "]";
    return o.str();
}
inline std::string snapshot(const BaseGraph::UndirectedMultigraph &g) {
    std::ostringstream o;
    snapLists(g, o);
    size_t n = g.getSize();
    o << " total=" << g.getTotalEdgeNumber() << " mult[";
    for (VertexIndex i = 0; i < n; ++i)
        for (VertexIndex j = 0; j < n; ++j)
            if (unsigned m = g.getEdgeMultiplicity(i, j)) o << i << "-" << j << "=" << m << ";";
    o << "]";
    return o.str();
}
template <class G> std::string snapshotWeighted(const G &g) {
    std::ostringstream o;
    o.precision(17);
    snapLists(g, o);
    size_t n = g.getSize();
    o << " total=" << (double)g.getTotalWeight() << " w[";
    for (VertexIndex i = 0; i < n; ++i)
        for (VertexIndex j = 0; j < n; ++j) {
            double w = g.getEdgeWeight(i, j, false);
            if (w != 0 || g.hasEdge(i, j)) o << i << "," << j << "=" << w << ";";
        }
    o << "]";
    return o.str();
}
inline std::string snapshot(const BaseGraph::DirectedWeightedGraph &g) { return snapshotWeighted(g); }
inline std::string snapshot(const BaseGraph::UndirectedWeightedGraph &g) { return snapshotWeighted(g); }

} // namespace vf
