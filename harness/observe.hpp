// "Take every observer" checks through the PUBLIC API only, shared by the
// history, shape and omni monitors. Everything the structural half of the
// properties talks about is derived from an Expect value (what the history
// denotes) and compared with what the real graph reports.
#pragma once
#include "common.hpp"

#include "BaseGraph/directed_graph.hpp"
#include "BaseGraph/directed_multigraph.hpp"
#include "BaseGraph/directed_weighted_graph.hpp"
#include "BaseGraph/undirected_graph.hpp"
#include "BaseGraph/undirected_multigraph.hpp"
#include "BaseGraph/undirected_weighted_graph.hpp"

#include <map>
#include <typeinfo>

namespace vf {
using BaseGraph::Edge;
using BaseGraph::VertexIndex;

template <class G> struct IsDirected;
template <class L> struct IsDirected<BaseGraph::LabeledDirectedGraph<L>> { static constexpr bool value = true; };
template <class L> struct IsDirected<BaseGraph::LabeledUndirectedGraph<L>> { static constexpr bool value = false; };
template <> struct IsDirected<BaseGraph::DirectedMultigraph> { static constexpr bool value = true; };
template <> struct IsDirected<BaseGraph::UndirectedMultigraph> { static constexpr bool value = false; };
template <> struct IsDirected<BaseGraph::DirectedWeightedGraph> { static constexpr bool value = true; };
template <> struct IsDirected<BaseGraph::UndirectedWeightedGraph> { static constexpr bool value = false; };

inline Edge canon(bool directed, VertexIndex i, VertexIndex j) {
    return (directed || i <= j) ? Edge{i, j} : Edge{j, i};
}

// What a history denotes, structurally.
struct Expect {
    bool directed = true;
    unsigned n = 0;
    struct Cell {
        unsigned copies = 1; // entries in the neighbour lists (>1 only with force=true)
        size_t unit = 1;     // what one entry contributes to degrees / adjacency matrix
    };
    std::map<Edge, Cell> e; // canonical key when undirected
    bool has(VertexIndex i, VertexIndex j) const { return e.count(canon(directed, i, j)) != 0; }
    size_t totalCopies() const {
        size_t s = 0;
        for (auto &kv : e) s += kv.second.copies;
        return s;
    }
    std::vector<std::vector<VertexIndex>> neighbours() const { // each sorted
        std::vector<std::vector<VertexIndex>> r(n);
        for (auto &kv : e) {
            VertexIndex a = kv.first.first, b = kv.first.second;
            for (unsigned c = 0; c < kv.second.copies; ++c) {
                r[a].push_back(b);
                if (!directed && a != b) r[b].push_back(a);
            }
        }
        for (auto &v : r) std::sort(v.begin(), v.end());
        return r;
    }
    std::vector<Edge> edgeMultiset() const { // sorted
        std::vector<Edge> r;
        for (auto &kv : e)
            for (unsigned c = 0; c < kv.second.copies; ++c) r.push_back(kv.first);
        return r;
    }
    std::string str() const {
        std::ostringstream o;
        o << (directed ? "directed" : "undirected") << " n=" << n << " {";
        for (auto &kv : e) {
            o << "(" << kv.first.first << "," << kv.first.second << ")";
            if (kv.second.copies != 1) o << "x" << kv.second.copies;
            if (kv.second.unit != 1) o << "*" << kv.second.unit;
            o << " ";
        }
        o << "}";
        return o.str();
    }
    uint64_t hash() const {
        uint64_t h = mix64(n, directed);
        for (auto &kv : e) h = mix64(h, mix64(((uint64_t)kv.first.first << 32) | kv.first.second, ((uint64_t)kv.second.copies << 32) ^ kv.second.unit));
        return h;
    }
};

// Collect edges() with a step cap: an enumeration that does not end is a
// verdict, not a hang.
template <class G> bool collectEdges(const G &g, size_t cap, std::vector<Edge> &out) {
    out.clear();
    auto es = g.edges();
    auto it = es.begin();
    auto en = es.end();
    size_t steps = 0;
    while (it != en) {
        if (steps++ > cap) return false;
        out.push_back(*it);
        ++it;
    }
    return true;
}

struct ObsCounters {
    uint64_t hasEdge = 0, neigh = 0, degree = 0, matrix = 0, edgesIter = 0, sizes = 0, vertexIter = 0;
    void flush(Reporter &R) {
        R.count("obs_hasEdge", hasEdge);
        R.count("obs_neighbour_lists", neigh);
        R.count("obs_degree", degree);
        R.count("obs_matrix_cells", matrix);
        R.count("obs_edges_iterated", edgesIter);
        R.count("obs_size_edgeNumber", sizes);
        R.count("obs_vertex_iteration", vertexIter);
        *this = ObsCounters();
    }
};

// Structural observers. Returns "" when everything agrees, otherwise
// "<observer>: expected ... got ..." for the first disagreement.
// flags: checkDegrees (C16 with duplicates leaves degrees out of its statement).
template <class G>
std::string checkStructure(const G &g, const Expect &x, ObsCounters &oc, bool checkDegrees = true, bool checkMatrix = true) {
    constexpr bool directed = IsDirected<G>::value;
    std::ostringstream m;
    unsigned n = x.n;
    try {
        ++oc.sizes;
        if (g.getSize() != n) {
            m << "getSize: expected " << n << " got " << g.getSize();
            return m.str();
        }
        size_t tc = x.totalCopies();
        if (g.getEdgeNumber() != tc) {
            m << "getEdgeNumber: expected " << tc << " got " << g.getEdgeNumber();
            return m.str();
        }
    } catch (std::exception &ex) {
        return std::string("getSize/getEdgeNumber-threw: ") + ex.what();
    }
    // vertex iteration
    try {
        ++oc.vertexIter;
        VertexIndex want = 0;
        size_t steps = 0;
        for (VertexIndex v : g) {
            if (v != want || steps++ > (size_t)n + 2) {
                m << "vertex-iteration: position " << want << " yields " << v;
                return m.str();
            }
            ++want;
        }
        if (want != n) {
            m << "vertex-iteration: yields " << want << " vertices, expected " << n;
            return m.str();
        }
    } catch (std::exception &ex) {
        return std::string("vertex-iteration-threw: ") + ex.what();
    }
    auto nb = x.neighbours();
    // neighbour lists
    try {
        for (VertexIndex i = 0; i < n; ++i) {
            ++oc.neigh;
            const auto &l = g.getOutNeighbours(i);
            std::vector<VertexIndex> got(l.begin(), l.end());
            std::sort(got.begin(), got.end());
            if (got != nb[i]) {
                m << "getOutNeighbours(" << i << "): expected " << vecStr(nb[i]) << " got " << vecStr(got);
                return m.str();
            }
        }
    } catch (std::exception &ex) {
        return std::string("getOutNeighbours-threw: ") + ex.what();
    }
    // hasEdge for every ordered pair
    try {
        for (VertexIndex i = 0; i < n; ++i)
            for (VertexIndex j = 0; j < n; ++j) {
                ++oc.hasEdge;
                bool want = x.has(i, j);
                if (g.hasEdge(i, j) != want) {
                    m << "hasEdge(" << i << "," << j << "): expected " << want << " got " << !want;
                    return m.str();
                }
            }
    } catch (std::exception &ex) {
        return std::string("hasEdge-threw: ") + ex.what();
    }
    // degrees and adjacency matrix
    {
        if constexpr (directed) {
            std::vector<size_t> outd(n, 0), ind(n, 0);
            std::vector<std::vector<size_t>> mat(n, std::vector<size_t>(n, 0));
            for (auto &kv : x.e) {
                size_t w = kv.second.copies * kv.second.unit;
                outd[kv.first.first] += w;
                ind[kv.first.second] += w;
                mat[kv.first.first][kv.first.second] += w;
            }
            if (checkDegrees) try {
                for (VertexIndex i = 0; i < n; ++i) {
                    oc.degree += 2;
                    if (g.getOutDegree(i) != outd[i]) {
                        m << "getOutDegree(" << i << "): expected " << outd[i] << " got " << g.getOutDegree(i);
                        return m.str();
                    }
                    if (g.getInDegree(i) != ind[i]) {
                        m << "getInDegree(" << i << "): expected " << ind[i] << " got " << g.getInDegree(i);
                        return m.str();
                    }
                }
            } catch (std::exception &ex) {
                return std::string("getOutDegree/getInDegree-threw: ") + ex.what();
            }
            if (checkDegrees) try {
                oc.degree += 2;
                auto od = g.getOutDegrees();
                if (od != outd) {
                    m << "getOutDegrees: expected " << vecStr(outd) << " got " << vecStr(od);
                    return m.str();
                }
            } catch (std::exception &ex) {
                return std::string("getOutDegrees-threw: ") + ex.what();
            }
            if (checkDegrees) try {
                auto id = g.getInDegrees();
                if (id != ind) {
                    m << "getInDegrees: expected " << vecStr(ind) << " got " << vecStr(id);
                    return m.str();
                }
            } catch (std::exception &ex) {
                return std::string("getInDegrees-threw: ") + ex.what();
            }
            if (checkMatrix) try {
                oc.matrix += (uint64_t)n * n;
                auto am = g.getAdjacencyMatrix();
                if (am != mat) {
                    m << "getAdjacencyMatrix: differs from the denoted graph " << x.str();
                    return m.str();
                }
            } catch (std::exception &ex) {
                return std::string("getAdjacencyMatrix-threw: ") + ex.what();
            }
        } else {
            for (int twice = 0; twice < 2; ++twice) {
                std::vector<size_t> deg(n, 0);
                std::vector<std::vector<size_t>> mat(n, std::vector<size_t>(n, 0));
                for (auto &kv : x.e) {
                    size_t w = kv.second.copies * kv.second.unit;
                    VertexIndex a = kv.first.first, b = kv.first.second;
                    if (a == b) {
                        deg[a] += twice ? 2 * w : w;
                        mat[a][a] += twice ? 2 * w : w;
                    } else {
                        deg[a] += w;
                        deg[b] += w;
                        mat[a][b] += w;
                        mat[b][a] += w;
                    }
                }
                if (checkDegrees) try {
                    for (VertexIndex i = 0; i < n; ++i) {
                        ++oc.degree;
                        size_t d = g.getDegree(i, (bool)twice);
                        if (d != deg[i]) {
                            m << "getDegree(" << i << "," << (twice ? "true" : "false") << "): expected " << deg[i] << " got " << d;
                            return m.str();
                        }
                        if (twice) {
                            size_t dd = g.getDegree(i);
                            if (dd != deg[i]) {
                                m << "getDegree(" << i << ") default: expected " << deg[i] << " got " << dd;
                                return m.str();
                            }
                        }
                    }
                    ++oc.degree;
                    auto ds = g.getDegrees((bool)twice);
                    if (ds != deg) {
                        m << "getDegrees(" << (twice ? "true" : "false") << "): expected " << vecStr(deg) << " got " << vecStr(ds);
                        return m.str();
                    }
                } catch (std::exception &ex) {
                    return std::string("getDegree(s)-threw: ") + ex.what();
                }
                if (checkMatrix) try {
                    oc.matrix += (uint64_t)n * n;
                    auto am = g.getAdjacencyMatrix((bool)twice);
                    if (am != mat) {
                        m << "getAdjacencyMatrix(" << (twice ? "true" : "false") << "): differs from the denoted graph " << x.str();
                        return m.str();
                    }
                    if (twice && g.getAdjacencyMatrix() != mat) {
                        m << "getAdjacencyMatrix() default: differs from the denoted graph " << x.str();
                        return m.str();
                    }
                    for (VertexIndex i = 0; i < n; ++i)
                        for (VertexIndex j = 0; j < n; ++j)
                            if (am[i][j] != am[j][i]) {
                                m << "getAdjacencyMatrix: not symmetric at " << i << "," << j;
                                return m.str();
                            }
                } catch (std::exception &ex) {
                    return std::string("getAdjacencyMatrix-threw: ") + ex.what();
                }
            }
        }
    }
    // edges()
    try {
        std::vector<Edge> got;
        size_t cap = x.totalCopies() * 2 + (size_t)n * n + 8;
        if (!collectEdges(g, cap, got)) {
            m << "edges(): enumeration did not end within " << cap << " steps";
            return m.str();
        }
        oc.edgesIter += got.size() + 1;
        if (!directed)
            for (auto &e : got)
                if (e.first > e.second) {
                    m << "edges(): undirected edge yielded as (" << e.first << "," << e.second << ") with first > second";
                    return m.str();
                }
        std::sort(got.begin(), got.end());
        auto want = x.edgeMultiset();
        if (got != want) {
            m << "edges(): yields " << got.size() << " edges [";
            for (auto &e : got) m << "(" << e.first << "," << e.second << ")";
            m << "], denoted graph is " << x.str();
            return m.str();
        }
    } catch (std::exception &ex) {
        return std::string("edges()-threw: ") + ex.what();
    }
    return "";
}

// The observers a *result* graph is judged by when the property under test is about how that graph was produced
// (conversion, constructor, subgraph, loader) and not about the observers themselves: size, edge count and
// hasEdge for every ordered pair. Degree / matrix / iteration observers belong to C01, C02, C08.
template <class G> std::string checkEdgesOnly(const G &g, const Expect &x, ObsCounters &oc) {
    std::ostringstream m;
    unsigned n = x.n;
    try {
        ++oc.sizes;
        if (g.getSize() != n) {
            m << "getSize: expected " << n << " got " << g.getSize();
            return m.str();
        }
        size_t tc = x.totalCopies();
        if (g.getEdgeNumber() != tc) {
            m << "getEdgeNumber: expected " << tc << " got " << g.getEdgeNumber();
            return m.str();
        }
        for (VertexIndex i = 0; i < n; ++i)
            for (VertexIndex j = 0; j < n; ++j) {
                ++oc.hasEdge;
                bool want = x.has(i, j);
                if (g.hasEdge(i, j) != want) {
                    m << "hasEdge(" << i << "," << j << "): expected " << want << " got " << !want;
                    return m.str();
                }
            }
    } catch (std::exception &ex) {
        return std::string("observers-threw: ") + ex.what();
    }
    return "";
}

// the same verdict for large sparse graphs, without enumerating all vertex pairs: size, edge count, the enumerated
// edges as a multiset, hasEdge for every expected edge
template <class G> std::string checkEdgesSparse(const G &g, const Expect &x) {
    std::ostringstream m;
    try {
        if (g.getSize() != x.n) {
            m << "getSize: expected " << x.n << " got " << g.getSize();
            return m.str();
        }
        if (g.getEdgeNumber() != x.totalCopies()) {
            m << "getEdgeNumber: expected " << x.totalCopies() << " got " << g.getEdgeNumber();
            return m.str();
        }
        std::vector<Edge> got;
        if (!collectEdges(g, x.totalCopies() * 2 + 8, got)) return "edges(): enumeration did not end";
        for (auto &e : got) e = canon(x.directed, e.first, e.second);
        std::sort(got.begin(), got.end());
        if (got != x.edgeMultiset()) {
            m << "edges(): " << got.size() << " edges enumerated, they are not the " << x.totalCopies() << " expected ones";
            return m.str();
        }
        for (auto &kv : x.e)
            if (!g.hasEdge(kv.first.first, kv.first.second)) {
                m << "hasEdge(" << kv.first.first << "," << kv.first.second << "): expected true";
                return m.str();
            }
    } catch (std::exception &ex) {
        return std::string("observers-threw: ") + ex.what();
    }
    return "";
}

// C08's own observers: vertex range-for yields 0..n-1 in order, edges() yields the model's edges exactly once
// (one orientation per undirected edge, first <= second), nothing else.
template <class G> std::string checkEnumeration(const G &g, const Expect &x, ObsCounters &oc) {
    constexpr bool directed = IsDirected<G>::value;
    std::ostringstream m;
    unsigned n = x.n;
    try {
        ++oc.sizes;
        if (g.getSize() != n) {
            m << "getSize: expected " << n << " got " << g.getSize();
            return m.str();
        }
        ++oc.vertexIter;
        VertexIndex want = 0;
        size_t steps = 0;
        for (VertexIndex v : g) {
            if (v != want || steps++ > (size_t)n + 2) {
                m << "vertex-iteration: position " << want << " yields " << v;
                return m.str();
            }
            ++want;
        }
        if (want != n) {
            m << "vertex-iteration: yields " << want << " vertices, expected " << n;
            return m.str();
        }
        std::vector<Edge> got;
        size_t cap = x.totalCopies() * 2 + (size_t)n * n + 8;
        if (!collectEdges(g, cap, got)) {
            m << "edges(): enumeration did not end within " << cap << " steps";
            return m.str();
        }
        oc.edgesIter += got.size() + 1;
        if (!directed)
            for (auto &e : got)
                if (e.first > e.second) {
                    m << "edges(): undirected edge yielded as (" << e.first << "," << e.second << ") with first > second";
                    return m.str();
                }
        std::sort(got.begin(), got.end());
        if (got != x.edgeMultiset()) {
            m << "edges(): yields " << got.size() << " edges [";
            for (auto &e : got) m << "(" << e.first << "," << e.second << ")";
            m << "], denoted graph is " << x.str();
            return m.str();
        }
    } catch (std::exception &ex) {
        return std::string("enumeration-threw: ") + ex.what();
    }
    return "";
}

// Exact, order-sensitive snapshot of the neighbour lists (for "changes nothing"
// clauses: a no-op must not even reorder a list).
template <class G> std::vector<std::vector<VertexIndex>> orderedLists(const G &g) {
    std::vector<std::vector<VertexIndex>> r;
    size_t n = g.getSize();
    for (VertexIndex i = 0; i < n; ++i) {
        const auto &l = g.getOutNeighbours(i);
        r.emplace_back(l.begin(), l.end());
    }
    return r;
}

} // namespace vf
