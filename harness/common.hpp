// Shared infrastructure for the BaseGraph runtime monitors.
// Deterministic PRNG keyed by (seed, stream, case), a reporter that collects
// counters / samples / violations and writes them as JSON, the case loop with a
// progress file (so that the driver can name the case a crashed child was in),
// and small helpers.
#pragma once
#include <algorithm>
#include <cstdint>
#include <cstdio>
#include <cstdlib>
#include <cstring>
#include <fcntl.h>
#include <functional>
#include <map>
#include <set>
#include <sstream>
#include <stdexcept>
#include <string>
#include <sys/stat.h>
#include <unistd.h>
#include <unordered_set>
#include <vector>

namespace vf {

inline uint64_t splitmix(uint64_t &s) {
    uint64_t z = (s += 0x9e3779b97f4a7c15ULL);
    z = (z ^ (z >> 30)) * 0xbf58476d1ce4e5b9ULL;
    z = (z ^ (z >> 27)) * 0x94d049bb133111ebULL;
    return z ^ (z >> 31);
}
inline uint64_t mix64(uint64_t a, uint64_t b) {
    uint64_t s = a ^ (b + 0x9e3779b97f4a7c15ULL + (a << 6) + (a >> 2));
    return splitmix(s);
}

struct Rng {
    uint64_t s;
    explicit Rng(uint64_t seed = 1) : s(seed) {}
    uint64_t next() { return splitmix(s); }
    // uniform in [0,n); n==0 -> 0
    uint64_t below(uint64_t n) { return n ? next() % n : 0; }
    unsigned u(unsigned n) { return (unsigned)below(n); }
    bool chance(unsigned num, unsigned den) { return below(den) < num; }
    double unit() { return (next() >> 11) * (1.0 / 9007199254740992.0); }
};
inline Rng caseRng(uint64_t seed, uint64_t stream, uint64_t idx) {
    return Rng(mix64(mix64(seed * 0x2545F4914F6CDD1DULL + 17, stream), idx));
}

inline std::string jsonEscape(const std::string &s) {
    std::string o;
    for (unsigned char c : s) {
        switch (c) {
        case '"': o += "\\\""; break;
        case '\\': o += "\\\\"; break;
        case '\n': o += "\\n"; break;
        case '\r': o += "\\r"; break;
        case '\t': o += "\\t"; break;
        default:
            if (c < 0x20 || c >= 0x7f) {
                char b[8];
                snprintf(b, sizeof b, "\\u%04x", c);
                o += b;
            } else
                o += (char)c;
        }
    }
    return o;
}
inline std::string q(const std::string &s) { return "\"" + jsonEscape(s) + "\""; }

inline std::string sanitizeKey(const std::string &k) {
    std::string o;
    for (char c : k)
        o += (isalnum((unsigned char)c) || c == '-' || c == '_' || c == '.') ? c : '_';
    if (o.size() > 120) o.resize(120);
    return o;
}

struct Args {
    std::string prop = "";
    std::string tier = "quick";
    uint64_t seed = 1;
    uint64_t shard = 0, nshards = 1;
    uint64_t cases = 100;
    long long only = -1; // run just this case index
    std::string out = "";
    std::string progress = "";
    std::string replayDir = "";
    std::string workDir = "";
    std::string mode = "";
    bool verbose = false;
    std::map<std::string, std::string> extra;
    std::string get(const std::string &k, const std::string &d = "") const {
        auto it = extra.find(k);
        return it == extra.end() ? d : it->second;
    }
    long long geti(const std::string &k, long long d) const {
        auto it = extra.find(k);
        return it == extra.end() ? d : atoll(it->second.c_str());
    }
};

inline Args parseArgs(int argc, char **argv) {
    Args a;
    for (int i = 1; i < argc; ++i) {
        std::string k = argv[i];
        auto val = [&]() -> std::string {
            if (i + 1 >= argc) {
                fprintf(stderr, "missing value for %s\n", k.c_str());
                exit(2);
            }
            return argv[++i];
        };
        if (k == "--prop") a.prop = val();
        else if (k == "--tier") a.tier = val();
        else if (k == "--seed") a.seed = strtoull(val().c_str(), 0, 10);
        else if (k == "--shard") a.shard = strtoull(val().c_str(), 0, 10);
        else if (k == "--nshards") a.nshards = strtoull(val().c_str(), 0, 10);
        else if (k == "--cases") a.cases = strtoull(val().c_str(), 0, 10);
        else if (k == "--only") a.only = atoll(val().c_str());
        else if (k == "--out") a.out = val();
        else if (k == "--progress") a.progress = val();
        else if (k == "--replay-dir") a.replayDir = val();
        else if (k == "--work-dir") a.workDir = val();
        else if (k == "--mode") a.mode = val();
        else if (k == "--verbose") a.verbose = true;
        else if (k.rfind("--x-", 0) == 0) a.extra[k.substr(4)] = val();
        else {
            fprintf(stderr, "unknown argument %s\n", k.c_str());
            exit(2);
        }
    }
    return a;
}

inline uint64_t hashBytes(const void *p, size_t n, uint64_t h = 1469598103934665603ULL) {
    const unsigned char *c = (const unsigned char *)p;
    for (size_t i = 0; i < n; ++i) {
        h ^= c[i];
        h *= 1099511628211ULL;
    }
    return h;
}
inline uint64_t hashStr(const std::string &s, uint64_t h = 1469598103934665603ULL) {
    return hashBytes(s.data(), s.size(), h);
}


struct Violation {
    std::string key, detail, replay;
    uint64_t caseIdx;
};

struct Reporter {
    Args args;
    std::map<std::string, uint64_t> counters;
    std::vector<std::string> samples; // already JSON-encoded values
    std::vector<Violation> viols;
    std::map<std::string, uint64_t> violCountByKey;
    std::unordered_set<uint64_t> distinct; // hashes of distinct non-trivial cases
    std::unordered_set<uint64_t> states;   // hashes of distinct model states seen
    int progressFd = -1;
    uint64_t curCase = 0;
    std::string curStream; // description of what the current case is (engine specific)
    std::function<std::string()> describeCase; // materialises the current case as JSON

    // very long runs: the hash sets are spilled (counted, then emptied) so that memory stays bounded; the counts become
    // sums over spills (a state seen in two spills is counted twice) and the driver is told not to union them
    uint64_t statesSpilled = 0, distinctSpilled = 0;
    void boundMemory() {
        if (states.size() > 2000000) { statesSpilled += states.size(); states.clear(); }
        if (distinct.size() > 2000000) { distinctSpilled += distinct.size(); distinct.clear(); }
    }
    uint64_t digestXor = 0; // order-independent digest of every result (C17: must not depend on the build)
    void digest(const std::string &what) { digestXor ^= mix64(curCase + 1, hashStr(what)); }
    uint64_t &counter(const std::string &k) { return counters[k]; }
    void count(const std::string &k, uint64_t d = 1) { counters[k] += d; }
    void sample(const std::string &json, size_t cap = 6) {
        if (samples.size() < cap) samples.push_back(json);
    }
    void openProgress() {
        if (!args.progress.empty())
            progressFd = open(args.progress.c_str(), O_CREAT | O_WRONLY | O_TRUNC, 0644);
    }
    void progress(uint64_t idx, const char *tag = "") {
        curCase = idx;
        if (progressFd >= 0) {
            char b[96];
            int n = snprintf(b, sizeof b, "%llu %s\n                ",
                             (unsigned long long)idx, tag);
            if (pwrite(progressFd, b, n, 0) < 0) {}
        }
    }
    // Record a violation of the property. key = <class>/<op>/<observer or symptom>.
    void violation(const std::string &key, const std::string &detail) {
        uint64_t &c = violCountByKey[key];
        ++c;
        if (c > 3 || viols.size() >= 60) return; // keep the first few witnesses per key
        Violation v;
        v.key = key;
        v.detail = detail;
        v.caseIdx = curCase;
        if (!args.replayDir.empty()) {
            mkdir(args.replayDir.c_str(), 0755);
            std::string p = args.replayDir + "/" + sanitizeKey(key) + "-s" +
                            std::to_string(args.seed) + "-c" + std::to_string(curCase) + ".json";
            FILE *f = fopen(p.c_str(), "w");
            if (f) {
                fprintf(f, "{\n \"property\": %s,\n \"key\": %s,\n \"seed\": %llu,\n \"case\": %llu,\n"
                           " \"tier\": %s,\n \"mode\": %s,\n \"detail\": %s,\n \"case_materialised\": %s\n}\n",
                        q(args.prop).c_str(), q(key).c_str(), (unsigned long long)args.seed,
                        (unsigned long long)curCase, q(args.tier).c_str(), q(args.mode).c_str(),
                        q(detail).c_str(), describeCase ? describeCase().c_str() : "null");
                fclose(f);
                v.replay = p;
            }
        }
        fprintf(stderr, "VIOL key=%s case=%llu %s\n", key.c_str(),
                (unsigned long long)curCase, detail.substr(0, 600).c_str());
        viols.push_back(v);
    }
    void write() {
        counters["digest_xor"] = digestXor >> 1; // keep it inside a signed 64-bit JSON integer
        counters["distinct_cases"] = distinct.size() + distinctSpilled;
        counters["distinct_states"] = states.size() + statesSpilled;
        std::string o = "{\n \"counters\": {";
        bool first = true;
        for (auto &kv : counters) {
            o += first ? "\n  " : ",\n  ";
            first = false;
            o += q(kv.first) + ": " + std::to_string(kv.second);
        }
        o += "\n },\n \"samples\": [";
        for (size_t i = 0; i < samples.size(); ++i) o += (i ? ",\n  " : "\n  ") + samples[i];
        o += "\n ],\n \"violations\": [";
        for (size_t i = 0; i < viols.size(); ++i) {
            o += (i ? ",\n  " : "\n  ");
            o += "{\"key\": " + q(viols[i].key) + ", \"detail\": " + q(viols[i].detail) +
                 ", \"replay\": " + q(viols[i].replay) + ", \"case\": " +
                 std::to_string(viols[i].caseIdx) + ", \"count\": " +
                 std::to_string(violCountByKey[viols[i].key]) + "}";
        }
        o += "\n ]\n}\n";
        if (args.out.empty()) {
            fputs(o.c_str(), stdout);
        } else {
            auto dump = [&](const std::unordered_set<uint64_t> &set, const char *suffix) {
                if (set.size() > 3000000 || statesSpilled || distinctSpilled) {
                    // too large to ship: an empty marker file larger than the driver's limit tells it to fall back to the sums
                    FILE *sf = fopen((args.out + suffix).c_str(), "wb");
                    if (sf) {
                        fseek(sf, 24000001, SEEK_SET);
                        fputc(0, sf);
                        fclose(sf);
                    }
                    return;
                }
                std::vector<uint64_t> v(set.begin(), set.end());
                FILE *sf = fopen((args.out + suffix).c_str(), "wb");
                if (sf) {
                    if (!v.empty()) fwrite(v.data(), 8, v.size(), sf);
                    fclose(sf);
                }
            };
            dump(states, ".states");
            dump(distinct, ".distinct");
            std::string tmp = args.out + ".tmp";
            FILE *f = fopen(tmp.c_str(), "w");
            if (!f) { perror("open out"); exit(2); }
            fputs(o.c_str(), f);
            fclose(f);
            rename(tmp.c_str(), args.out.c_str());
        }
    }
};

// Runs `fn(idx)` for every case index this shard owns (or only args.only).
template <class F>
void forCases(Reporter &R, uint64_t total, const char *tag, F fn) {
    if (R.args.only >= 0) {
        if ((uint64_t)R.args.only < total) {
            R.progress(R.args.only, tag);
            fn((uint64_t)R.args.only);
        }
        return;
    }
    uint64_t resume = (uint64_t)R.args.geti("resume", 0);
    // --x-stride k: only every k-th case of the space (reduced workloads spread over the whole space)
    uint64_t stride = (uint64_t)R.args.geti("stride", 1);
    if (stride < 1) stride = 1;
    for (uint64_t k = R.args.shard; k * stride < total; k += R.args.nshards) {
        uint64_t i = k * stride;
        if (i < resume) continue;
        R.progress(i, tag);
        fn(i);
        R.boundMemory();
    }
}

template <class T> std::string vecStr(const T &v) {
    std::ostringstream o;
    o << "[";
    bool f = true;
    for (auto &x : v) {
        if (!f) o << ",";
        f = false;
        o << x;
    }
    o << "]";
    return o.str();
}

} // namespace vf

namespace vf {
enum Exc { EX_NONE = 0, EX_OUT_OF_RANGE, EX_INVALID_ARGUMENT, EX_RUNTIME_ERROR, EX_OTHER_STD, EX_UNKNOWN };
inline const char *excName(int e) {
    static const char *n[] = {"no-exception", "std::out_of_range", "std::invalid_argument", "std::runtime_error",
                              "other-std::exception", "non-std-exception"};
    return n[e];
}
template <class F> Exc classify(F f, std::string *what = nullptr) {
    try {
        f();
        return EX_NONE;
    } catch (std::out_of_range &e) {
        if (what) *what = e.what();
        return EX_OUT_OF_RANGE;
    } catch (std::invalid_argument &e) {
        if (what) *what = e.what();
        return EX_INVALID_ARGUMENT;
    } catch (std::runtime_error &e) {
        if (what) *what = e.what();
        return EX_RUNTIME_ERROR;
    } catch (std::exception &e) {
        if (what) *what = e.what();
        return EX_OTHER_STD;
    } catch (...) {
        return EX_UNKNOWN;
    }
}
} // namespace vf

#include <sys/wait.h>
namespace vf {
// Runs f in a forked child so that a crash (signal, sanitizer abort) in one
// cell does not take the enumeration down. f returns "" (oracle satisfied) or
// a mismatch description. The child's stderr is captured.
struct Isolated {
    enum { OK, MISMATCH, CRASH } status = OK;
    std::string text;    // mismatch description or crash report
    std::string symptom; // short stable name of the crash kind
};
inline std::string crashSymptom(const std::string &err, int wstatus) {
    auto has = [&](const char *s) { return err.find(s) != std::string::npos; };
    if (has("Assertion") && has("failed")) return "glibcxx-assertion";
    size_t p = err.find("ERROR: AddressSanitizer: ");
    if (p != std::string::npos) {
        size_t b = p + strlen("ERROR: AddressSanitizer: ");
        size_t e = err.find_first_of(" \n", b);
        return "asan-" + err.substr(b, e - b);
    }
    if (has("runtime error:")) return "ubsan-runtime-error";
    if (has("Assertion") && has("failed")) return "glibcxx-assertion";
    if (has("terminate called")) return "uncaught-exception";
    if (WIFSIGNALED(wstatus)) return "signal-" + std::to_string(WTERMSIG(wstatus));
    return "abnormal-exit-" + std::to_string(WIFEXITED(wstatus) ? WEXITSTATUS(wstatus) : -1);
}
template <class F> Isolated runIsolated(F f) {
    Isolated r;
    int pr[2], pe[2];
    if (pipe(pr) || pipe(pe)) { perror("pipe"); exit(2); }
    fflush(stdout);
    fflush(stderr);
    pid_t pid = fork();
    if (pid < 0) { perror("fork"); exit(2); }
    if (pid == 0) {
        close(pr[0]);
        close(pe[0]);
        dup2(pe[1], 2);
        std::string m;
        try {
            m = f();
        } catch (std::exception &e) {
            m = std::string("harness: unexpected exception escaped the cell: ") + e.what();
        } catch (...) {
            m = "harness: unexpected non-std exception escaped the cell";
        }
        if (!m.empty()) {
            size_t off = 0;
            while (off < m.size()) {
                ssize_t w = ::write(pr[1], m.data() + off, m.size() - off);
                if (w <= 0) break;
                off += (size_t)w;
            }
        }
        _exit(m.empty() ? 0 : 3);
    }
    close(pr[1]);
    close(pe[1]);
    auto slurp = [](int fd) {
        std::string s;
        char b[4096];
        ssize_t n;
        while ((n = read(fd, b, sizeof b)) > 0) {
            if (s.size() < 200000) s.append(b, (size_t)n);
        }
        close(fd);
        return s;
    };
    // read both pipes without blocking on one: stderr can be large, result small
    std::string res, err;
    {
        // simple approach: poll-less, read result first (small), child writes it last;
        // to avoid deadlock when stderr fills the pipe, drain stderr in a helper process-free way:
        fcntl(pr[0], F_SETFL, O_NONBLOCK);
        fcntl(pe[0], F_SETFL, O_NONBLOCK);
        bool o1 = true, o2 = true;
        char b[4096];
        while (o1 || o2) {
            bool progress = false;
            if (o1) {
                ssize_t n = read(pr[0], b, sizeof b);
                if (n > 0) { res.append(b, (size_t)n); progress = true; }
                else if (n == 0) { o1 = false; progress = true; }
            }
            if (o2) {
                ssize_t n = read(pe[0], b, sizeof b);
                if (n > 0) { if (err.size() < 200000) err.append(b, (size_t)n); progress = true; }
                else if (n == 0) { o2 = false; progress = true; }
            }
            if (!progress) usleep(200);
        }
        close(pr[0]);
        close(pe[0]);
    }
    (void)slurp;
    int st = 0;
    waitpid(pid, &st, 0);
    if (WIFEXITED(st) && WEXITSTATUS(st) == 0) {
        r.status = Isolated::OK;
    } else if (WIFEXITED(st) && WEXITSTATUS(st) == 3) {
        r.status = Isolated::MISMATCH;
        r.text = res;
    } else {
        r.status = Isolated::CRASH;
        r.symptom = crashSymptom(err, st);
        r.text = err.size() > 2500 ? err.substr(0, 2500) : err;
    }
    return r;
}
} // namespace vf
