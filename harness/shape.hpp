// Shape monitors (C08 enumeration, C09 conversions/constructors, C10 subgraphs):
// the space of small graphs, enumerated completely, plus random larger ones.
#pragma once
#include "common.hpp"
#include "labels.hpp"
#include "observe.hpp"

namespace vf {

struct GraphSpec {
    bool directed = true;
    unsigned n = 0;
    std::vector<Edge> edges; // distinct pairs; canonical (first<=second) when undirected
    bool exhaustive = false;
    std::string str() const {
        std::ostringstream o;
        o << (directed ? "directed" : "undirected") << " n=" << n << " edges=[";
        for (auto &e : edges) o << "(" << e.first << "," << e.second << ")";
        o << "]";
        return o.str();
    }
    uint64_t hash() const {
        uint64_t h = mix64(n, directed);
        for (auto &e : edges) h = mix64(h, ((uint64_t)e.first << 32) | e.second);
        return h;
    }
};

// all slots (ordered pairs, or unordered pairs incl. loops) of a graph on n vertices
inline std::vector<Edge> slots(bool directed, unsigned n) {
    std::vector<Edge> s;
    for (unsigned i = 0; i < n; ++i)
        for (unsigned j = directed ? 0 : i; j < n; ++j) s.push_back({i, j});
    return s;
}

struct SpecSpace {
    bool directed;
    unsigned maxExhaustiveN;
    uint64_t randomCount;
    unsigned randMinN, randMaxN;
    std::vector<uint64_t> prefix; // prefix[k] = number of exhaustive graphs with n < k
    bool padIsolated = false;
    unsigned bigEvery = 0, bigMaxN = 90; // every bigEvery-th random graph is a "big" one: 25..bigMaxN vertices, a hub, up to hundreds of edges
    SpecSpace(bool directed, unsigned maxExhaustiveN, uint64_t randomCount, unsigned randMinN, unsigned randMaxN, unsigned bigEvery = 0, unsigned bigMaxN = 90)
        : directed(directed), maxExhaustiveN(maxExhaustiveN), randomCount(randomCount), randMinN(randMinN), randMaxN(randMaxN), bigEvery(bigEvery), bigMaxN(bigMaxN) {
        prefix.push_back(0);
        for (unsigned n = 0; n <= maxExhaustiveN; ++n) prefix.push_back(prefix.back() + (1ULL << slots(directed, n).size()));
    }
    uint64_t exhaustiveCount() const { return prefix.back(); }
    uint64_t count() const { return exhaustiveCount() + randomCount; }
    GraphSpec at(uint64_t i, uint64_t seed) const {
        GraphSpec g;
        g.directed = directed;
        if (i < exhaustiveCount()) {
            unsigned n = 0;
            while (prefix[n + 1] <= i) ++n;
            uint64_t code = i - prefix[n];
            g.n = n;
            g.exhaustive = true;
            auto sl = slots(directed, n);
            for (size_t b = 0; b < sl.size(); ++b)
                if (code >> b & 1) g.edges.push_back(sl[b]);
            return g;
        }
        Rng r = caseRng(seed, directed ? 0x5a : 0x5b, i);
        if (bigEvery && (i - exhaustiveCount()) % bigEvery == bigEvery - 1) {
            // scale: 25..bigMaxN vertices; one or two hubs joined to most vertices (long neighbour lists, wide BFS levels);
            // the rest sparse, or - on up to 45 vertices - anything up to the complete graph
            unsigned n = 25 + r.u(bigMaxN - 24);
            g.n = n + r.u(3);
            std::set<Edge> seen;
            auto add = [&](VertexIndex a, VertexIndex b) {
                Edge e = canon(directed, a, b);
                if (seen.insert(e).second) g.edges.push_back(e);
            };
            unsigned hubs = 1 + r.u(2);
            for (unsigned h = 0; h < hubs; ++h) {
                VertexIndex hub = r.u(n);
                unsigned reach = n / 2 + r.u(n / 2 + 1);
                for (unsigned t = 0; t < reach; ++t) {
                    VertexIndex v = r.u(n);
                    if (directed && r.chance(1, 4)) add(v, hub);
                    else add(hub, v);
                }
            }
            double density = n <= 45 && r.chance(1, 3) ? r.unit() : 0.02 + 0.05 * r.unit();
            unsigned target = (unsigned)(density * n * n);
            for (unsigned t = 0; t < target; ++t) {
                VertexIndex a = r.u(n), b = r.chance(1, 20) ? a : r.u(n);
                add(a, b);
            }
            if (padIsolated) {
                // long runs of isolated vertices before and / or after everything that has an edge
                unsigned before = r.chance(1, 3) ? 64 + r.u(50) : 0, after = r.chance(1, 3) ? 64 + r.u(50) : 0;
                for (auto &e : g.edges) {
                    e.first += before;
                    e.second += before;
                }
                g.n += before + after;
            }
            return g;
        }
        unsigned n = randMinN + r.u(randMaxN - randMinN + 1);
        g.n = n;
        // isolated prefix / suffix: edges only among vertices lo..hi-1
        unsigned lo = 0, hi = n;
        unsigned shape = r.u(4);
        if (shape == 1) lo = r.u(n);
        else if (shape == 2) hi = 1 + r.u(n);
        else if (shape == 3) { lo = r.u(n); hi = lo + 1 + r.u(n - lo); }
        unsigned span = hi - lo;
        double density = r.unit() * r.unit();
        std::set<Edge> seen;
        unsigned target = (unsigned)(density * span * span) + r.u(3);
        for (unsigned t = 0; t < target * 2 && seen.size() < target; ++t) {
            VertexIndex a = lo + r.u(span), b = r.chance(1, 8) ? a : lo + r.u(span);
            Edge e = canon(directed, a, b);
            if (seen.insert(e).second) g.edges.push_back(e);
        }
        return g;
    }
};

// insertion order (and orientation when undirected) for a spec: variant 0 = as
// enumerated, 1 = reversed, >=2 = seeded shuffles
inline std::vector<Edge> insertionOrder(const GraphSpec &s, unsigned variant, Rng &r) {
    std::vector<Edge> v = s.edges;
    if (variant == 1) std::reverse(v.begin(), v.end());
    else if (variant >= 2)
        for (size_t i = v.size(); i > 1; --i) std::swap(v[i - 1], v[r.u((unsigned)i)]);
    if (!s.directed && variant >= 1)
        for (auto &e : v)
            if (r.chance(1, 2)) std::swap(e.first, e.second);
    return v;
}

inline uint64_t stampOf(const Edge &canonicalEdge, uint64_t salt) { return 1 + (mix64(((uint64_t)canonicalEdge.first << 32) | canonicalEdge.second, salt) % 900000); }

struct ShapeRunner {
    std::string cls;
    bool directed;
    // variant: insertion order; sub: case number (for sampling)
    std::function<void(Reporter &, const std::string &prop, const GraphSpec &, unsigned variant, uint64_t idx)> run;
};
std::vector<ShapeRunner> &shapeRunners();
struct RegisterShape {
    RegisterShape(ShapeRunner r) { shapeRunners().push_back(std::move(r)); }
};

// iteration oracles shared by all classes: pre-increment, post-increment and
// range-for agree, twice running; begin()==end() iff no edge.
template <class G> std::string checkIteration(const G &g, size_t expectedEdges, uint64_t &steps) {
    std::ostringstream m;
    size_t cap = expectedEdges * 2 + g.getSize() * g.getSize() + 8;
    std::vector<Edge> pre, post, rng, again;
    try {
        {
            auto es = g.edges();
            auto it = es.begin();
            auto en = es.end();
            bool emptyRange = (it == en);
            if (emptyRange != !(it != en)) return "edges(): operator== and operator!= disagree on begin() vs end()";
            if (emptyRange != (expectedEdges == 0)) {
                m << "edges(): begin()==end() is " << emptyRange << " but the graph has " << expectedEdges << " edges";
                return m.str();
            }
            size_t s = 0;
            for (; it != en; ++it) {
                if (s++ > cap) return "edges(): pre-increment traversal did not end";
                pre.push_back(*it);
            }
        }
        {
            auto es = g.edges();
            auto it = es.begin();
            auto en = es.end();
            size_t s = 0;
            while (it != en) {
                if (s++ > cap) return "edges(): post-increment traversal did not end";
                Edge here = *it;
                auto old = it++;
                if (!(*old == here)) return "edges(): value returned by post-increment is not the old position";
                post.push_back(here);
            }
        }
        {
            size_t s = 0;
            for (auto e : g.edges()) {
                if (s++ > cap) return "edges(): range-for traversal did not end";
                rng.push_back(e);
            }
            s = 0;
            for (auto e : g.edges()) {
                if (s++ > cap) return "edges(): second range-for traversal did not end";
                again.push_back(e);
            }
        }
    } catch (std::exception &ex) {
        return std::string("edges()-threw: ") + ex.what();
    }
    steps += pre.size() + post.size() + rng.size() + again.size();
    if (pre != post) return "edges(): pre- and post-increment traversals differ";
    if (pre != rng) return "edges(): iterator and range-for traversals differ";
    if (rng != again) return "edges(): two traversals of the same graph give different sequences";
    // a fresh begin() equals itself; an advanced iterator differs from begin()
    if (!pre.empty()) {
        auto es = g.edges();
        auto a = es.begin(), b = es.begin();
        if (!(a == b)) return "edges(): two begin() iterators compare unequal";
        ++b;
        if (a == b) return "edges(): an incremented iterator still equals begin()";
    }
    return "";
}

} // namespace vf
