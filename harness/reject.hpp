// C07: rejected-call matrix. For one graph class: every public entry point
// taking a vertex index x every argument position x every out-of-range value x
// every flag combination, applied in a series of graph states. Oracle: exact
// exception type, and the graph observably identical afterwards.
#pragma once
#include "common.hpp"
#include "snapshot.hpp"

#include "BaseGraph/algorithms/paths.hpp"
#include "BaseGraph/algorithms/topology.hpp"

#include <climits>

namespace vf {

template <class G> struct Cell {
    std::string entry;
    int arity;   // 1 or 2 vertex positions
    int nflags;  // number of flag combinations
    std::function<void(G &, VertexIndex, VertexIndex, unsigned)> call;
};
// calls that must throw std::invalid_argument (missing edge / shrinking resize)
template <class G> struct IaCell {
    std::string entry;
    int nflags;
    // needs: 0 = nothing, 1 = a missing pair, 2 = size > 0
    int needs;
    std::function<void(G &, VertexIndex, VertexIndex, unsigned)> call;
};

struct RejectRunner {
    std::string cls;
    // runs every cell in `states` graph states derived from (seed, sub)
    std::function<void(Reporter &, uint64_t sub, bool isolate)> run;
};
std::vector<RejectRunner> &rejectRunners();
struct RegisterReject {
    RegisterReject(RejectRunner r) { rejectRunners().push_back(std::move(r)); }
};

struct RejectCounters {
    uint64_t cells = 0, iaCells = 0, snapshots = 0, validInterleaved = 0, isolatedForks = 0;
    uint64_t byExc[6] = {0};
};

// G must provide: a state builder  void buildState(G&, Rng&, unsigned variant)
// and a mutator  void mutateValid(G&, Rng&)  supplied by the registering unit.
template <class G>
void runRejectCase(Reporter &R, const std::string &cls, const std::vector<Cell<G>> &cells, const std::vector<IaCell<G>> &iaCells,
                   std::function<void(G &, Rng &, unsigned)> buildState, std::function<void(G &, Rng &)> mutateValid, uint64_t sub, bool isolate,
                   RejectCounters &rc) {
    Rng r = caseRng(R.args.seed, hashStr(cls + "reject"), sub);
    unsigned variant = (unsigned)(sub % 10);
    G g(0);
    buildState(g, r, variant);
    std::string stateDesc = snapshot(g);
    std::string curCell;
    R.describeCase = [&] { return "{\"class\": " + q(cls) + ", \"state\": " + q(stateDesc) + ", \"cell\": " + q(curCell) + "}"; };
    R.distinct.insert(hashStr(cls + stateDesc));
    static const char *posName[] = {"first-index", "second-index", "both-indices", "both-indices-equal"};
    unsigned sinceMut = 0;
    auto runOne = [&](const std::string &desc, const std::string &keyBase, Exc wantExc, std::function<void(G &)> call) -> bool {
        curCell = desc;
        auto body = [&]() -> std::string {
            std::string before = snapshot(g);
            G copy(g);
            std::string what;
            Exc ex = classify([&] { call(g); }, &what);
            if (ex != wantExc) return std::string("exception: expected ") + excName(wantExc) + ", got " + excName(ex) + (what.empty() ? "" : " (" + what + ")");
            std::string after;
            Exc ex2 = classify([&] { after = snapshot(g); }, &what);
            if (ex2 != EX_NONE) return std::string("state: observers threw ") + excName(ex2) + " after the rejected call (" + what + ")";
            if (after != before) return "state: graph changed by a rejected call; before " + before + " after " + after;
            if (!(g == copy) || (g != copy)) return "state: graph no longer == the copy taken before the rejected call";
            return "";
        };
        ++rc.snapshots;
        if (isolate) {
            ++rc.isolatedForks;
            Isolated ir = runIsolated(body);
            if (ir.status == Isolated::OK) return true;
            if (ir.status == Isolated::MISMATCH) {
                std::string kind = ir.text.substr(0, ir.text.find(':'));
                R.violation(keyBase + "/" + kind, desc + ": " + ir.text);
            } else {
                R.violation(keyBase + "/" + ir.symptom, desc + ": " + ir.text);
            }
            return false;
        }
        std::string m = body();
        if (!m.empty()) {
            std::string kind = m.substr(0, m.find(':'));
            R.violation(keyBase + "/" + kind, desc + ": " + m);
            return false;
        }
        return true;
    };
    for (size_t ci = 0; ci < cells.size(); ++ci) {
        const Cell<G> &c = cells[ci];
        int npos = c.arity == 1 ? 1 : 4;
        for (int pos = 0; pos < npos; ++pos)
            for (int bv = 0; bv < 3; ++bv)
                for (int fl = 0; fl < c.nflags; ++fl) {
                    unsigned n = (unsigned)g.getSize();
                    VertexIndex bad = bv == 0 ? n : bv == 1 ? n + 1 : UINT_MAX;
                    VertexIndex bad2 = bv == 0 ? n + 1 : bv == 1 ? UINT_MAX : n;
                    VertexIndex ok = n ? r.u(n) : 0;
                    if (n && r.chance(1, 2)) { // the vertex with the longest neighbour list (fast paths for hubs)
                        size_t best = 0;
                        for (VertexIndex v = 0; v < n; ++v)
                            if (g.getOutNeighbours(v).size() > best) { best = g.getOutNeighbours(v).size(); ok = v; }
                    }
                    VertexIndex a, b;
                    if (c.arity == 1) { a = bad; b = 0; }
                    else if (pos == 0) { a = bad; b = ok; }
                    else if (pos == 1) { a = ok; b = bad; }
                    else if (pos == 2) { a = bad; b = bad2; }
                    else { a = bad; b = bad; }
                    std::ostringstream d;
                    d << c.entry << " with " << (c.arity == 1 ? "index" : posName[pos]) << " out of range (a=" << a << ", b=" << b << ", size=" << n << ", flags=" << fl << ")";
                    std::string keyBase = cls + "/" + c.entry + "/" + (c.arity == 1 ? "index" : posName[pos]) + "/" + (bv == 0 ? "size" : bv == 1 ? "size+1" : "UINT_MAX") + "/flags" + std::to_string(fl);
                    ++rc.cells;
                    R.states.insert(hashStr(keyBase));
                    runOne(d.str(), keyBase, EX_OUT_OF_RANGE, [&](G &gg) { c.call(gg, a, b, (unsigned)fl); });
                    if (++sinceMut >= 9) {
                        sinceMut = 0;
                        mutateValid(g, r);
                        ++rc.validInterleaved;
                    }
                }
    }
    for (size_t ci = 0; ci < iaCells.size(); ++ci) {
        const IaCell<G> &c = iaCells[ci];
        for (int fl = 0; fl < c.nflags; ++fl) {
            unsigned n = (unsigned)g.getSize();
            VertexIndex a = 0, b = 0;
            if (c.needs == 2 && n == 0) continue;
            if (c.needs == 1) {
                bool found = false;
                for (unsigned t = 0; t < 60 && !found && n; ++t) {
                    a = r.u(n);
                    b = r.u(n);
                    if (!g.hasEdge(a, b)) found = true;
                }
                if (!found) continue;
            }
            std::ostringstream d;
            d << c.entry << " (a=" << a << ", b=" << b << ", size=" << n << ", flags=" << fl << ")";
            std::string keyBase = cls + "/" + c.entry + "/flags" + std::to_string(fl);
            ++rc.iaCells;
            R.states.insert(hashStr(keyBase));
            runOne(d.str(), keyBase, EX_INVALID_ARGUMENT, [&](G &gg) { c.call(gg, a, b, (unsigned)fl); });
            if (++sinceMut >= 9) {
                sinceMut = 0;
                mutateValid(g, r);
                ++rc.validInterleaved;
            }
        }
    }
    if (sub < 2 && R.samples.size() < 4) R.sample("{\"class\": " + q(cls) + ", \"state\": " + q(stateDesc) + ", \"last_cell\": " + q(curCell) + "}");
}

inline void flushReject(Reporter &R, RejectCounters &rc) {
    R.count("rejected_out_of_range_cells_executed", rc.cells);
    R.count("rejected_invalid_argument_cells_executed", rc.iaCells);
    R.count("before_after_snapshot_comparisons", rc.snapshots);
    R.count("valid_calls_interleaved", rc.validInterleaved);
    R.count("cells_run_in_forked_child", rc.isolatedForks);
    rc = RejectCounters();
}

} // namespace vf
