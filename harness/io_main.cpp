// Driver of the file-IO monitors (C13, C14, C15).
#include "io_common.hpp"

namespace vf {
std::vector<IoRunner> &ioRunners() {
    static std::vector<IoRunner> r;
    return r;
}
std::vector<ShapeRunner> &shapeRunners() {
    static std::vector<ShapeRunner> r;
    return r;
}
} // namespace vf
using namespace vf;

int main(int argc, char **argv) {
    Reporter R;
    R.args = parseArgs(argc, argv);
    R.openProgress();
    if (!hostIsLittleEndian()) {
        fprintf(stderr, "io: this monitor's independent encoder assumes a little-endian host\n");
        return 2;
    }
    const std::string prop = R.args.prop;
    bool isolate = R.args.geti("isolate", 0) != 0;
    // the text and binary monitors are compiled in several parts; each part ignores the cases of the others
    struct Group {
        std::vector<const IoRunner *> parts;
        void run(Reporter &R, const std::string &m, uint64_t sub, bool iso) const {
            for (auto *p : parts) p->run(R, m, sub, iso);
        }
    } textG, binG;
    for (auto &r : ioRunners()) {
        if (r.name == "text") textG.parts.push_back(&r);
        if (r.name == "bin") binG.parts.push_back(&r);
    }
    if (textG.parts.empty() || binG.parts.empty()) return 2;
    const Group *text = &textG, *bin = &binG;
    if (R.args.mode == "openfail-path") {
        R.progress(0, "io");
        bin->run(R, "openfail-path", 0, isolate);
        bin->run(R, "", (uint64_t)-1, isolate);
        R.write();
        return R.viols.empty() ? 0 : 1;
    }
    forCases(R, R.args.cases, "io", [&](uint64_t idx) {
        if (prop == "C13") {
            static const char *modes[] = {"roundtrip", "format", "names"};
            const char *m = modes[idx % 3];
            R.count(std::string("cases_") + m);
            text->run(R, m, idx / 3, isolate);
        } else if (prop == "C14") {
            if (idx % 50 == 49) {
                R.count("cases_openfail");
                bin->run(R, "openfail", idx / 50, isolate);
            } else {
                const char *m = idx % 2 ? "handmade" : "binary";
                R.count(std::string("cases_") + m);
                bin->run(R, m, idx / 2, isolate);
            }
        } else if (prop == "C15" && R.args.mode == "truncate-only") {
            R.count("cases_truncate");
            bin->run(R, "truncate", idx, isolate);
        } else if (prop == "C15") {
            // one truncation case expands to (file length + 1) loads; text fuzz cases are single loads
            if (idx % 8 == 0) {
                R.count("cases_truncate");
                bin->run(R, "truncate", idx / 8, isolate);
            } else {
                R.count("cases_fuzz");
                text->run(R, "fuzz", idx - idx / 8 - 1, isolate);
            }
        }
    });
    text->run(R, "", (uint64_t)-1, isolate);
    bin->run(R, "", (uint64_t)-1, isolate);
    R.write();
    return R.viols.empty() ? 0 : 1;
}
