// Path monitors: C11 (breadth-first geodesics), C12 (Dijkstra), C19 (work
// bounds). The searches are templates over the graph type, so they are run on
// wrapper types that derive from the real classes and shadow getOutNeighbours
// with a scan counter that throws at budget+1: termination and work are decided
// in logical steps, never by the clock.
#include "shape.hpp"

#include "BaseGraph/algorithms/paths.hpp"

#include <cmath>
#include <queue>

namespace vf {
std::vector<ShapeRunner> &shapeRunners() {
    static std::vector<ShapeRunner> r;
    return r;
}
} // namespace vf

namespace {
using namespace vf;
using namespace BaseGraph;
namespace alg = BaseGraph::algorithms;

struct BudgetExceeded {
    uint64_t budget;
};

template <class L> struct CountDir : LabeledDirectedGraph<L> {
    using Base = LabeledDirectedGraph<L>;
    explicit CountDir(size_t n = 0) : Base(n) {}
    mutable uint64_t scans = 0;
    mutable uint64_t budget = ~0ULL;
    const Successors &getOutNeighbours(VertexIndex v) const {
        if (++scans > budget) throw BudgetExceeded{budget};
        return Base::getOutNeighbours(v);
    }
    const Successors &rawNeighbours(VertexIndex v) const { return Base::getOutNeighbours(v); }
};
template <class L> struct CountUnd : LabeledUndirectedGraph<L> {
    using Base = LabeledUndirectedGraph<L>;
    explicit CountUnd(size_t n = 0) : Base(n) {}
    mutable uint64_t scans = 0;
    mutable uint64_t budget = ~0ULL;
    const Successors &getOutNeighbours(VertexIndex v) const {
        if (++scans > budget) throw BudgetExceeded{budget};
        return Base::getOutNeighbours(v);
    }
    const Successors &rawNeighbours(VertexIndex v) const { return Base::getOutNeighbours(v); }
};
struct CountDW : DirectedWeightedGraph {
    using Base = DirectedWeightedGraph;
    explicit CountDW(size_t n = 0) : Base(n) {}
    mutable uint64_t scans = 0;
    mutable uint64_t budget = ~0ULL;
    mutable std::vector<VertexIndex> *trace = nullptr; // order in which neighbourhoods are scanned
    const Successors &getOutNeighbours(VertexIndex v) const {
        if (++scans > budget) throw BudgetExceeded{budget};
        if (trace) trace->push_back(v);
        return Base::getOutNeighbours(v);
    }
    const Successors &rawNeighbours(VertexIndex v) const { return Base::getOutNeighbours(v); }
};
struct CountUW : UndirectedWeightedGraph {
    using Base = UndirectedWeightedGraph;
    explicit CountUW(size_t n = 0) : Base(n) {}
    mutable uint64_t scans = 0;
    mutable uint64_t budget = ~0ULL;
    const Successors &getOutNeighbours(VertexIndex v) const {
        if (++scans > budget) throw BudgetExceeded{budget};
        return Base::getOutNeighbours(v);
    }
    const Successors &rawNeighbours(VertexIndex v) const { return Base::getOutNeighbours(v); }
};

const size_t UNREACH = std::numeric_limits<VertexIndex>::max();

struct Counters {
    uint64_t graphs = 0, sources = 0, pairs = 0, distChecks = 0, predChecks = 0, allPredChecks = 0, pathsValidated = 0, allPathSets = 0, allPathsCompared = 0,
             wrongResultsSeenInWorkCheck = 0, pathSetsSkippedTooMany = 0, unreachablePairs = 0, tiedPairs = 0, dijkstraRuns = 0, dijkstraTreeEdges = 0, zeroWeightEdges = 0, scanBoundChecks = 0,
             maxScanRatioPermille = 0, graphsWithExpManyPaths = 0, maxShortestPathsSeenLog2 = 0, budgetsHit = 0;
} C;

// ------------------------------------------------------------------ graph families
struct Family {
    GraphSpec s;
    std::string name;
    unsigned ampBase = 0; // "amplified" family: vertices 0..ampBase-1 form the base graph, the rest are shared sinks
};
GraphSpec layered(bool directed, unsigned w, unsigned depth) {
    GraphSpec g;
    g.directed = directed;
    g.n = 2 + w * depth;
    auto v = [&](unsigned layer, unsigned k) { return 1 + layer * w + k; };
    for (unsigned k = 0; k < w; ++k) g.edges.push_back({0, v(0, k)});
    for (unsigned l = 0; l + 1 < depth; ++l)
        for (unsigned a = 0; a < w; ++a)
            for (unsigned b = 0; b < w; ++b) g.edges.push_back({v(l, a), v(l + 1, b)});
    for (unsigned k = 0; k < w; ++k) g.edges.push_back({v(depth - 1, k), g.n - 1});
    return g;
}
GraphSpec grid(bool directed, unsigned a, unsigned b) {
    GraphSpec g;
    g.directed = directed;
    g.n = a * b;
    for (unsigned i = 0; i < a; ++i)
        for (unsigned j = 0; j < b; ++j) {
            if (j + 1 < b) g.edges.push_back({i * b + j, i * b + j + 1});
            if (i + 1 < a) g.edges.push_back({i * b + j, (i + 1) * b + j});
        }
    return g;
}
GraphSpec completeDag(unsigned n, bool loops) {
    GraphSpec g;
    g.directed = true;
    g.n = n;
    for (unsigned i = 0; i < n; ++i)
        for (unsigned j = loops ? i : i + 1; j < n; ++j) g.edges.push_back({i, j});
    return g;
}
GraphSpec clique(bool directed, unsigned n, bool loops) {
    GraphSpec g;
    g.directed = directed;
    g.n = n;
    for (unsigned i = 0; i < n; ++i)
        for (unsigned j = directed ? 0 : i; j < n; ++j)
            if (i != j || loops) g.edges.push_back({i, j});
    return g;
}
GraphSpec bipartite(bool directed, unsigned a, unsigned b) {
    GraphSpec g;
    g.directed = directed;
    g.n = a + b;
    for (unsigned i = 0; i < a; ++i)
        for (unsigned j = 0; j < b; ++j) g.edges.push_back({i, a + j});
    return g;
}
GraphSpec cycleWithChords(bool directed, unsigned n, Rng &r) {
    GraphSpec g;
    g.directed = directed;
    g.n = n;
    std::set<Edge> seen;
    for (unsigned i = 0; i < n; ++i) {
        Edge e = canon(directed, i, (i + 1) % n);
        if (seen.insert(e).second) g.edges.push_back(e);
    }
    for (unsigned t = 0; t < n / 2; ++t) {
        VertexIndex ca = r.u(n), cb = r.u(n); // sequenced: argument evaluation order is unspecified
        Edge e = canon(directed, ca, cb);
        if (seen.insert(e).second) g.edges.push_back(e);
    }
    return g;
}

// family index -> spec; small = sizes suited to exhaustive path-set comparison
Family familyAt(uint64_t i, bool small, uint64_t seed) {
    Rng r = caseRng(seed, 0xfa, i);
    Family f;
    bool directed = i % 2 == 0;
    unsigned kind = (unsigned)((i / 2) % 10);
    unsigned step = (unsigned)(i / 20);
    switch (kind) {
    case 0: {
        unsigned w = small ? 2 + step % 2 : 2 + step % 3;
        unsigned d = small ? 1 + step % 4 : 2 + (step * 7) % 39;
        f.s = layered(directed, w, d);
        f.name = "layered(w=" + std::to_string(w) + ",depth=" + std::to_string(d) + ")";
        break;
    }
    case 1: {
        unsigned a = small ? 2 + step % 2 : 2 + step % 11, b = small ? 2 + step % 3 : 2 + (step * 5) % 11;
        f.s = grid(directed, a, b);
        f.name = "grid(" + std::to_string(a) + "x" + std::to_string(b) + ")";
        break;
    }
    case 2: {
        unsigned n = small ? 2 + step % 5 : 3 + (step * 3) % 28;
        if (directed) f.s = completeDag(n, step % 2);
        else f.s = clique(false, n, step % 2);
        f.name = std::string(directed ? "completeDag" : "clique") + "(" + std::to_string(n) + (step % 2 ? ",loops)" : ")");
        break;
    }
    case 3: {
        unsigned n = small ? 2 + step % 4 : 3 + (step * 3) % 20;
        f.s = clique(directed, n, step % 2);
        f.name = "clique(" + std::to_string(n) + (step % 2 ? ",loops)" : ")");
        break;
    }
    case 4: {
        unsigned a = small ? 1 + step % 3 : 2 + step % 9, b = small ? 1 + (step / 3) % 3 : 2 + (step * 5) % 9;
        f.s = bipartite(directed, a, b);
        f.name = "bipartite(" + std::to_string(a) + "," + std::to_string(b) + ")";
        break;
    }
    case 5: {
        unsigned n = small ? 3 + step % 5 : 5 + (step * 7) % 60;
        f.s = cycleWithChords(directed, n, r);
        f.name = "cycleWithChords(" + std::to_string(n) + ")";
        break;
    }
    case 6: { // chain of shortcut triangles: a_i -> b_i -> a_{i+1} and the direct a_i -> a_{i+1}
        unsigned k = small ? 1 + step % 4 : 2 + (step * 3) % 30;
        f.s.directed = directed;
        f.s.n = 2 * k + 1;
        for (unsigned t = 0; t < k; ++t) {
            f.s.edges.push_back({2 * t, 2 * t + 1});
            f.s.edges.push_back({2 * t + 1, 2 * t + 2});
            f.s.edges.push_back({2 * t, 2 * t + 2});
        }
        f.name = "shortcutTriangles(" + std::to_string(k) + ")";
        break;
    }
    case 7: { // fan: source - a level of many vertices - a second level hanging off it (wide BFS levels, many equal keys in the heap)
        unsigned w = small ? 48 + step % 30 : 40 + (step * 7) % 60;
        unsigned tail = 2 + step % 9;
        f.s.directed = directed;
        f.s.n = 1 + w + tail;
        for (unsigned k = 0; k < w; ++k) f.s.edges.push_back({0, 1 + k});
        for (unsigned k = 0; k < w; ++k) f.s.edges.push_back(canon(directed, 1 + k, 1 + w + (k % tail)));
        for (unsigned t = 0; t + 1 < tail; ++t) f.s.edges.push_back({1 + w + t, 1 + w + t + 1});
        if (directed) f.s.edges.push_back({1 + w + tail - 1, 1 + (step % w)}); // an edge pointing back into the wide level
        f.name = "fan(level=" + std::to_string(w) + ",tail=" + std::to_string(tail) + ")";
        break;
    }
    case 8: {
        // amplifier: a small dense base graph (many decrease-key events) whose every vertex also points to d shared sinks.
        // With the weights of weighAmplified() each base vertex, expanded in the right order, improves every sink once; a
        // vertex expanded before its distance is final improves them twice, so every mis-ordered pop costs d extra scans.
        unsigned m = small ? 4 + step % 4 : 5 + (step * 3) % 10;
        f.s.directed = directed;
        for (unsigned a = 0; a < m; ++a)
            for (unsigned b = directed ? 0 : a + 1; b < m; ++b)
                if (a != b && r.chance(1, 2)) f.s.edges.push_back({a, b});
        for (unsigned a = 0; a + 1 < m; ++a) {
            Edge e{a, a + 1};
            if (std::find(f.s.edges.begin(), f.s.edges.end(), e) == f.s.edges.end()) f.s.edges.push_back(e);
        }
        unsigned d = (unsigned)f.s.edges.size() + 2 + step % 7;
        for (unsigned a = 0; a < m; ++a)
            for (unsigned t = 0; t < d; ++t) f.s.edges.push_back({a, m + t});
        f.s.n = m + d;
        f.ampBase = m;
        f.name = "amplifier(base=" + std::to_string(m) + ",sinks=" + std::to_string(d) + ")";
        break;
    }
    default: { // dense random graph: many decrease-key events
        unsigned n = small ? 4 + step % 5 : 6 + (step * 5) % 25;
        f.s.directed = directed;
        f.s.n = n;
        for (unsigned a = 0; a < n; ++a)
            for (unsigned b = directed ? 0 : a; b < n; ++b)
                if (r.chance(3, 5)) f.s.edges.push_back({a, b});
        f.name = "denseRandom(" + std::to_string(n) + ")";
    }
    }
    f.name = std::string(directed ? "directed " : "undirected ") + f.name;
    return f;
}

// ------------------------------------------------------------------ reference oracles
template <class G> std::vector<std::vector<VertexIndex>> adjacency(const G &g) {
    std::vector<std::vector<VertexIndex>> a(g.getSize());
    for (VertexIndex i = 0; i < g.getSize(); ++i) {
        const auto &l = g.rawNeighbours(i);
        a[i].assign(l.begin(), l.end());
    }
    return a;
}
std::vector<size_t> refBfs(const std::vector<std::vector<VertexIndex>> &adj, VertexIndex s) {
    std::vector<size_t> d(adj.size(), UNREACH);
    std::queue<VertexIndex> q;
    d[s] = 0;
    q.push(s);
    while (!q.empty()) {
        VertexIndex u = q.front();
        q.pop();
        for (auto v : adj[u])
            if (d[v] == UNREACH) {
                d[v] = d[u] + 1;
                q.push(v);
            }
    }
    return d;
}
bool hasArc(const std::vector<std::vector<VertexIndex>> &adj, VertexIndex a, VertexIndex b) { return std::find(adj[a].begin(), adj[a].end(), b) != adj[a].end(); }

// number of shortest paths from s to each vertex (saturating)
std::vector<double> countPaths(const std::vector<std::vector<VertexIndex>> &adj, const std::vector<size_t> &d, VertexIndex s) {
    size_t n = adj.size();
    std::vector<VertexIndex> order;
    for (VertexIndex v = 0; v < n; ++v)
        if (d[v] != UNREACH) order.push_back(v);
    std::sort(order.begin(), order.end(), [&](VertexIndex a, VertexIndex b) { return d[a] < d[b]; });
    std::vector<double> c(n, 0);
    c[s] = 1;
    for (auto u : order) {
        std::set<VertexIndex> seen; // parallel arcs do not make new vertex paths
        for (auto v : adj[u])
            if (d[v] == d[u] + 1 && seen.insert(v).second) c[v] += c[u];
    }
    return c;
}
void enumPaths(const std::vector<std::set<VertexIndex>> &parents, VertexIndex s, VertexIndex v, std::vector<VertexIndex> &cur, std::set<std::vector<VertexIndex>> &out) {
    cur.push_back(v);
    if (v == s) {
        out.insert(std::vector<VertexIndex>(cur.rbegin(), cur.rend()));
    } else {
        for (auto p : parents[v]) enumPaths(parents, s, p, cur, out);
    }
    cur.pop_back();
}

template <class P> std::string pathStr(const P &p) {
    std::ostringstream o;
    o << "[";
    for (auto v : p) o << v << " ";
    o << "]";
    return o.str();
}

std::string validatePath(const std::vector<std::vector<VertexIndex>> &adj, const std::vector<size_t> &d, VertexIndex s, VertexIndex t, const std::list<VertexIndex> &p, const char *fn) {
    std::ostringstream o;
    if (d[t] == UNREACH) {
        if (!p.empty()) o << fn << ": vertex " << t << " is unreachable from " << s << " but the path " << pathStr(p) << " is returned";
        return o.str();
    }
    if (p.empty()) {
        o << fn << ": empty path from " << s << " to reachable vertex " << t;
        return o.str();
    }
    if (p.size() != d[t] + 1) {
        o << fn << ": path " << pathStr(p) << " from " << s << " to " << t << " has " << p.size() - 1 << " hops, the distance is " << d[t];
        return o.str();
    }
    if (p.front() != s || p.back() != t) {
        o << fn << ": path " << pathStr(p) << " does not go from " << s << " to " << t;
        return o.str();
    }
    auto it = p.begin();
    VertexIndex prev = *it;
    for (++it; it != p.end(); ++it) {
        if (*it >= adj.size() || !hasArc(adj, prev, *it)) {
            o << fn << ": path " << pathStr(p) << " uses (" << prev << "," << *it << "), which is not an edge";
            return o.str();
        }
        prev = *it;
    }
    ++C.pathsValidated;
    return "";
}

const uint64_t GUARD = 2000000; // hang guard for the behavioural checks (C19 uses the exact bounds)

// ------------------------------------------------------------------ C11
std::string *digestSink = nullptr; // results of the searches, appended in call order (C17 digest)
template <class V> void sink(const V &v) {
    if (!digestSink) return;
    for (auto x : v) *digestSink += std::to_string(x) + ",";
    *digestSink += ";";
}
// onlySources / maxTargets: graphs of tens of thousands of vertices are searched from a few sources, to a few destinations
template <class G> std::string c11(const G &g, bool exhaustivePairs, const std::vector<VertexIndex> *onlySources = nullptr, unsigned maxTargets = 0) {
    auto adj = adjacency(g);
    unsigned n = (unsigned)g.getSize();
    std::ostringstream o;
    for (VertexIndex s = 0; s < n; ++s) {
        if (onlySources && std::find(onlySources->begin(), onlySources->end(), s) == onlySources->end()) continue;
        ++C.sources;
        auto d = refBfs(adj, s);
        std::vector<std::set<VertexIndex>> parents(n);
        for (VertexIndex u = 0; u < n; ++u)
            if (d[u] != UNREACH)
                for (auto v : adj[u])
                    if (d[v] == d[u] + 1) parents[v].insert(u);
        auto cnt = countPaths(adj, d, s);
        try {
            g.scans = 0;
            g.budget = GUARD;
            auto sp = alg::findVertexPredecessors(g, s);
            if (sp.first.size() != n || sp.second.size() != n) return "findVertexPredecessors: result vectors do not have one entry per vertex";
            sink(sp.first);
            sink(sp.second);
            for (VertexIndex v = 0; v < n; ++v) {
                ++C.distChecks;
                if (sp.first[v] != d[v]) {
                    o << "findVertexPredecessors(source " << s << "): distance of " << v << " is " << sp.first[v] << ", true hop count " << d[v] << (d[v] == UNREACH ? " (unreachable sentinel)" : "");
                    return o.str();
                }
                if (v != s && d[v] != UNREACH) {
                    ++C.predChecks;
                    VertexIndex p = sp.second[v];
                    if (p >= n || !parents[v].count(p)) {
                        o << "findVertexPredecessors(source " << s << "): predecessor of " << v << " is " << p << ", not an in-neighbour one hop closer";
                        return o.str();
                    }
                }
            }
            g.scans = 0;
            auto ap = alg::findAllVertexPredecessors(g, s);
            if (ap.first.size() != n || ap.second.size() != n) return "findAllVertexPredecessors: result vectors do not have one entry per vertex";
            for (auto &pl : ap.second) sink(pl);
            for (VertexIndex v = 0; v < n; ++v) {
                ++C.distChecks;
                if (ap.first[v] != d[v]) {
                    o << "findAllVertexPredecessors(source " << s << "): distance of " << v << " is " << ap.first[v] << ", true hop count " << d[v];
                    return o.str();
                }
                ++C.allPredChecks;
                std::set<VertexIndex> got(ap.second[v].begin(), ap.second[v].end());
                if (got.size() != ap.second[v].size()) {
                    o << "findAllVertexPredecessors(source " << s << "): predecessor list of " << v << " " << pathStr(ap.second[v]) << " has repeats";
                    return o.str();
                }
                std::set<VertexIndex> want = (v == s) ? std::set<VertexIndex>() : parents[v];
                if (got != want) {
                    o << "findAllVertexPredecessors(source " << s << "): predecessors of " << v << " are " << pathStr(ap.second[v]) << ", in-neighbours one hop closer are " << pathStr(want);
                    return o.str();
                }
            }
            g.scans = 0;
            auto fromV = alg::findGeodesicsFromVertex(g, s);
            if (fromV.size() != n) return "findGeodesicsFromVertex: result does not have one path per vertex";
            for (VertexIndex t = 0; t < n; ++t) {
                sink(fromV[t]);
                std::string e = validatePath(adj, d, s, t, fromV[t], "findGeodesicsFromVertex");
                if (!e.empty()) return e;
            }
            std::vector<alg::MultiplePaths> allFrom;
            bool allFromOk = true;
            double worst = 0;
            for (VertexIndex t = 0; t < n; ++t) worst = std::max(worst, cnt[t]);
            if (worst <= 3000) {
                g.scans = 0;
                allFrom = alg::findAllGeodesicsFromVertex(g, s);
                if (allFrom.size() != n) return "findAllGeodesicsFromVertex: result does not have one entry per vertex";
            } else
                allFromOk = false;
            for (VertexIndex t = 0; t < n; ++t) {
                if (!exhaustivePairs && n > 8 && t % 3 != s % 3) continue;
                if (maxTargets && t % (n / maxTargets + 1) != s % (n / maxTargets + 1) && t + 1 != n) continue;
                ++C.pairs;
                if (d[t] == UNREACH) ++C.unreachablePairs;
                if (cnt[t] > 1) ++C.tiedPairs;
                g.scans = 0;
                auto p = alg::findGeodesics(g, s, t);
                std::string e = validatePath(adj, d, s, t, p, "findGeodesics");
                if (!e.empty()) return e;
                if (s == t && (p.size() != 1 || p.front() != s)) return "findGeodesics: path from a vertex to itself is not [source]";
                if (cnt[t] > 3000) {
                    ++C.pathSetsSkippedTooMany;
                    continue;
                }
                std::set<std::vector<VertexIndex>> want;
                if (d[t] != UNREACH) {
                    std::vector<VertexIndex> cur;
                    enumPaths(parents, s, t, cur, want);
                }
                for (int which = 0; which < 2; ++which) {
                    if (which == 1 && !allFromOk) continue;
                    g.scans = 0;
                    alg::MultiplePaths got = which == 0 ? alg::findAllGeodesics(g, s, t) : allFrom[t];
                    const char *fn = which == 0 ? "findAllGeodesics" : "findAllGeodesicsFromVertex";
                    ++C.allPathSets;
                    std::set<std::vector<VertexIndex>> gs;
                    for (auto &pp : got) {
                        sink(pp);
                        std::string e2 = validatePath(adj, d, s, t, pp, fn);
                        if (!e2.empty()) return e2;
                        if (!gs.insert(std::vector<VertexIndex>(pp.begin(), pp.end())).second) {
                            o << fn << ": path " << pathStr(pp) << " from " << s << " to " << t << " is returned twice";
                            return o.str();
                        }
                    }
                    C.allPathsCompared += want.size();
                    if (gs != want) {
                        o << fn << ": " << gs.size() << " paths returned from " << s << " to " << t << ", the graph has " << want.size() << " shortest paths";
                        for (auto &w : want)
                            if (!gs.count(w)) {
                                o << "; missing " << pathStr(w);
                                break;
                            }
                        return o.str();
                    }
                }
            }
        } catch (BudgetExceeded &) {
            ++C.budgetsHit;
            o << "search from " << s << " did not finish within " << GUARD << " neighbourhood scans";
            return "termination: " + o.str();
        } catch (std::exception &ex) {
            return std::string("search-threw: ") + ex.what();
        }
    }
    return "";
}

// copies > 1: every edge is inserted that many times with force=true (parallel entries in the neighbour lists)
// copies == SOME_DUPLICATED: about a third of the edges are inserted again (once or twice) with force=true after all edges are in,
// so that a duplicate is generally not next to the original in the neighbour list
const unsigned SOME_DUPLICATED = 99;
uint64_t rejectedBeforeSearch = 0;
// "every graph" includes one on which calls were rejected earlier: two calls with a vertex out of range (forced and unforced,
// the valid vertex first or second) are made - and must throw - before the graph is handed to the searches
template <class G, class F> void rejectedCallsInThePast(G &g, Rng &r, F addForced) {
    unsigned n = (unsigned)g.getSize();
    if (n == 0) return;
    for (int t = 0; t < 2; ++t) {
        VertexIndex ok = r.u(n), bad = n + r.u(2);
        bool okFirst = r.chance(1, 2);
        try {
            addForced(okFirst ? ok : bad, okFirst ? bad : ok, r.chance(2, 3));
        } catch (std::exception &) {
            ++rejectedBeforeSearch;
        }
    }
}
template <class G> G buildUnweighted(const GraphSpec &s, unsigned variant, Rng &r, unsigned copies = 1) {
    G g(s.n);
    auto order = insertionOrder(s, variant, r);
    if (copies == SOME_DUPLICATED) {
        for (auto &e : order) g.addEdge(e.first, e.second);
        for (auto &e : order)
            if (r.chance(1, 3))
                for (unsigned c = 0, k = 1 + r.u(2); c < k; ++c) g.addEdge(e.first, e.second, true);
        return g;
    }
    for (auto &e : order)
        for (unsigned c = 0; c < copies; ++c) g.addEdge(e.first, e.second, c > 0);
    if (variant == 2 && s.n <= 200) rejectedCallsInThePast(g, r, [&](VertexIndex a, VertexIndex b, bool force) { g.addEdge(a, b, force); });
    return g;
}
// tens of thousands of vertices, shallow (every vertex i > 0 hangs below a random earlier one) with as many random extra edges
// again: index arithmetic that only goes wrong past 2^16 vertices (n*n, n*i+j in 32 bits) is exercised, paths stay short
GraphSpec bigShallow(bool directed, unsigned n, Rng &r) {
    GraphSpec s;
    s.directed = directed;
    s.n = n;
    std::set<Edge> seen;
    auto add = [&](VertexIndex a, VertexIndex b) {
        Edge e = canon(directed, a, b);
        if (seen.insert(e).second) s.edges.push_back(e);
    };
    for (VertexIndex i = 1; i < n; ++i) {
        if (i % 97 == 13) continue; // some vertices stay unreachable from 0 (unless a random edge reaches them)
        VertexIndex p = r.chance(1, 4) ? r.u(std::min(i, 40u)) : r.u(i);
        add(p, i);
    }
    for (unsigned k = 0; k < 2 * n; ++k) add(r.u(n), r.u(n));
    add(n - 1, n - 1);
    add(n - 1, 0);
    add(n - 2, n - 1);
    return s;
}

// ------------------------------------------------------------------ C12
struct WSpec {
    GraphSpec s;
    std::map<Edge, double> w;
    int alphabet; // 0 {0,1,2,3}, 1 dyadic, 2 random doubles, 3 all zero, 4 by index distance, 5 integers 1..9, 6 multiples of 2^-60
};
WSpec weigh(const GraphSpec &s, int alphabet, Rng &r) {
    WSpec ws;
    ws.s = s;
    ws.alphabet = alphabet;
    for (auto &e : s.edges) {
        double w;
        switch (alphabet) {
        case 0: w = (double)r.u(4); break;
        case 1: w = (double)r.u(129) / 16.0; break;
        case 2: {
            bool zero = r.chance(1, 10);
            double mant = r.unit();
            double mag = std::pow(10.0, (double)r.u(7) - 3);
            w = zero ? 0.0 : mant * mag;
            break;
        }
        case 4: { // structured: neighbouring indices cheap, jumps dear (shortcut triangles, decrease-key cascades)
            unsigned dist = e.first > e.second ? e.first - e.second : e.second - e.first;
            w = dist <= 1 ? 1.0 : 1.0 + 2.0 * dist;
            break;
        }
        case 5: w = (double)(1 + r.u(9)); break;
        case 6: w = std::ldexp((double)(1 + r.u(4)), -60); break; // tiny magnitudes: every sum is still exact
        default: w = 0.0;
        }
        ws.w[e] = w;
    }
    return ws;
}
// weights for the amplifier family: base edges 1..9, edge (v, sink) = BIG - 3 * (true distance of v from vertex 0)
WSpec weighAmplified(const GraphSpec &s, unsigned base, Rng &r) {
    WSpec ws;
    ws.s = s;
    ws.alphabet = 5;
    for (auto &e : s.edges)
        if (e.first < base && e.second < base) ws.w[e] = (double)(1 + r.u(9));
    std::vector<double> d(base, 1e18);
    d[0] = 0;
    for (unsigned round = 0; round < base; ++round)
        for (auto &kv : ws.w) {
            VertexIndex a = kv.first.first, b = kv.first.second;
            if (d[a] + kv.second < d[b]) d[b] = d[a] + kv.second;
            if (!s.directed && d[b] + kv.second < d[a]) d[a] = d[b] + kv.second;
        }
    const double BIG = 4096;
    for (auto &e : s.edges)
        if (!(e.first < base && e.second < base)) {
            VertexIndex v = std::min(e.first, e.second);
            ws.w[e] = d[v] > 1e17 ? BIG : BIG - 3 * d[v];
        }
    return ws;
}
template <class G> G buildWeighted(const WSpec &ws, unsigned variant, Rng &r) {
    G g(ws.s.n);
    for (auto &e : insertionOrder(ws.s, variant, r)) g.addEdge(e.first, e.second, ws.w.at(canon(ws.s.directed, e.first, e.second)));
    if (variant == 2 && ws.s.n <= 200) rejectedCallsInThePast(g, r, [&](VertexIndex a, VertexIndex b, bool force) { g.addEdge(a, b, 1.25, force); });
    return g;
}
std::vector<long double> bellmanFord(const WSpec &ws, VertexIndex s) {
    unsigned n = ws.s.n;
    const long double INF = std::numeric_limits<long double>::infinity();
    std::vector<long double> d(n, INF);
    d[s] = 0;
    for (unsigned round = 0; round < n + 1; ++round) {
        bool ch = false;
        for (auto &kv : ws.w) {
            VertexIndex a = kv.first.first, b = kv.first.second;
            if (d[a] + kv.second < d[b]) { d[b] = d[a] + kv.second; ch = true; }
            if (!ws.s.directed && d[b] + kv.second < d[a]) { d[a] = d[b] + kv.second; ch = true; }
        }
        if (!ch) break;
    }
    return d;
}
// the same number of vertices, but only a few hundred of them (spread over the whole index range, first and last included)
// carry edges: the library's Dijkstra re-heapifies on every relaxation, so the reachable part has to stay small
GraphSpec bigIslands(bool directed, unsigned n, Rng &r) {
    GraphSpec s;
    s.directed = directed;
    s.n = n;
    std::vector<VertexIndex> ids = {0, n - 1, n - 2, 65535 % n, 65536 % n, 1};
    while (ids.size() < 300) ids.push_back(r.u(n));
    std::set<Edge> seen;
    auto add = [&](VertexIndex a, VertexIndex b) {
        Edge e = canon(directed, a, b);
        if (seen.insert(e).second) s.edges.push_back(e);
    };
    for (size_t i = 1; i < ids.size(); ++i)
        if (i % 37 != 5) add(ids[r.u((unsigned)i)], ids[i]);
    for (unsigned k = 0; k < 900; ++k) add(ids[r.u(300)], ids[r.u(300)]);
    add(n - 1, n - 1);
    add(n - 1, 0);
    return s;
}
// reference for graphs too large for Bellman-Ford: textbook Dijkstra on the model's own edge map (non-negative weights)
std::vector<long double> refDijkstra(const WSpec &ws, VertexIndex s) {
    unsigned n = ws.s.n;
    const long double INF = std::numeric_limits<long double>::infinity();
    std::vector<std::vector<std::pair<VertexIndex, double>>> adj(n);
    for (auto &kv : ws.w) {
        adj[kv.first.first].push_back({kv.first.second, kv.second});
        if (!ws.s.directed && kv.first.first != kv.first.second) adj[kv.first.second].push_back({kv.first.first, kv.second});
    }
    std::vector<long double> d(n, INF);
    std::priority_queue<std::pair<long double, VertexIndex>, std::vector<std::pair<long double, VertexIndex>>, std::greater<std::pair<long double, VertexIndex>>> pq;
    d[s] = 0;
    pq.push({0, s});
    while (!pq.empty()) {
        auto top = pq.top();
        pq.pop();
        if (top.first > d[top.second]) continue;
        for (auto &e : adj[top.second])
            if (top.first + e.second < d[e.first]) {
                d[e.first] = top.first + e.second;
                pq.push({d[e.first], e.first});
            }
    }
    return d;
}
template <class G> std::string c12(const G &g, const WSpec &ws, uint64_t budgetOrZero, const std::vector<VertexIndex> *onlySources = nullptr) {
    unsigned n = ws.s.n;
    std::ostringstream o;
    o.precision(17);
    bool exact = ws.alphabet != 2;
    uint64_t listLen = 0;
    for (VertexIndex v = 0; v < n; ++v) listLen += g.rawNeighbours(v).size();
    for (VertexIndex s = 0; s < n; ++s) {
        if (onlySources && std::find(onlySources->begin(), onlySources->end(), s) == onlySources->end()) continue;
        auto ref = onlySources ? refDijkstra(ws, s) : bellmanFord(ws, s);
        try {
            g.scans = 0;
            g.budget = budgetOrZero ? budgetOrZero : GUARD;
            auto res = alg::findGeodesicsDijkstra(g, s);
            ++C.dijkstraRuns;
            if (budgetOrZero) {
                ++C.scanBoundChecks;
                uint64_t ratio = g.scans * 1000 / (n + listLen + 1);
                C.maxScanRatioPermille = std::max(C.maxScanRatioPermille, ratio);
            }
            if (budgetOrZero) continue; // work-bound mode (C19): the values are C12's verdict
            if (res.first.size() != n || res.second.size() != n) return "findGeodesicsDijkstra: result vectors do not have one entry per vertex";
            if (digestSink) {
                for (auto x : res.first) {
                    char b[40];
                    snprintf(b, sizeof b, "%.17g,", x);
                    *digestSink += b;
                }
                sink(res.second);
            }
            if (res.first[s] != 0) {
                o << "findGeodesicsDijkstra(source " << s << "): distance of the source is " << res.first[s];
                return o.str();
            }
            if (res.second[s] != s) {
                o << "findGeodesicsDijkstra(source " << s << "): predecessor of the source is " << res.second[s];
                return o.str();
            }
            for (VertexIndex v = 0; v < n; ++v) {
                ++C.distChecks;
                long double want = ref[v];
                double got = res.first[v];
                bool ok = exact ? ((long double)got == want) : (std::isinf(want) ? std::isinf(got) && got > 0 : std::fabs((long double)got - want) <= 1e-9L * (1 + want));
                if (!ok) {
                    o << "findGeodesicsDijkstra(source " << s << "): distance of " << v << " is " << got << ", minimum over all paths is " << (double)want;
                    return o.str();
                }
                if (std::isinf(want)) {
                    if (res.second[v] != (VertexIndex)UNREACH) {
                        o << "findGeodesicsDijkstra(source " << s << "): unreachable vertex " << v << " has predecessor " << res.second[v] << " instead of the sentinel";
                        return o.str();
                    }
                } else if (v != s) {
                    ++C.dijkstraTreeEdges;
                    VertexIndex p = res.second[v];
                    if (p >= n || !g.hasEdge(p, v)) {
                        o << "findGeodesicsDijkstra(source " << s << "): predecessor " << p << " of " << v << " is not joined to it by an edge";
                        return o.str();
                    }
                    double w = g.getEdgeWeight(p, v);
                    if (w == 0) ++C.zeroWeightEdges;
                    double sum = res.first[p] + w;
                    bool tok = exact ? (sum == got) : (std::fabs(sum - got) <= 1e-9 * (1 + std::fabs(got)));
                    if (!tok) {
                        o << "findGeodesicsDijkstra(source " << s << "): dist[" << v << "]=" << got << " != dist[" << p << "]+w=" << sum;
                        return o.str();
                    }
                }
            }
        } catch (BudgetExceeded &b) {
            ++C.budgetsHit;
            o << (budgetOrZero ? "work-bound: " : "termination: ") << "findGeodesicsDijkstra(source " << s << ") scanned more than " << b.budget << " neighbourhoods (V=" << n << ", E=" << listLen << ")";
            return o.str();
        } catch (std::exception &ex) {
            return std::string("findGeodesicsDijkstra-threw: ") + ex.what();
        }
    }
    return "";
}

// ------------------------------------------------------------------ C19 (BFS part)
template <class G> std::string c19bfs(const G &g, const std::vector<VertexIndex> &sources) {
    unsigned n = (unsigned)g.getSize();
    uint64_t listLen = 0;
    for (VertexIndex v = 0; v < n; ++v) listLen += g.rawNeighbours(v).size();
    auto adj = adjacency(g);
    std::ostringstream o;
    for (auto s : sources) {
        ++C.sources;
        auto d = refBfs(adj, s);
        auto cnt = countPaths(adj, d, s);
        double mx = 0;
        for (auto c : cnt) mx = std::max(mx, c);
        if (mx > 1e6) ++C.graphsWithExpManyPaths;
        C.maxShortestPathsSeenLog2 = std::max<uint64_t>(C.maxShortestPathsSeenLog2, mx > 1 ? (uint64_t)std::log2(mx) : 0);
        try {
            g.scans = 0;
            g.budget = n;
            auto sp = alg::findVertexPredecessors(g, s);
            ++C.scanBoundChecks;
            for (VertexIndex v = 0; v < n; ++v)
                if (sp.first[v] != d[v]) ++C.wrongResultsSeenInWorkCheck; // a wrong answer is C11's verdict, not a work-bound violation
        } catch (BudgetExceeded &b) {
            ++C.budgetsHit;
            o << "work-bound: findVertexPredecessors(source " << s << ") scanned more than V=" << b.budget << " neighbourhoods (V=" << n << ", E=" << listLen << ")";
            return o.str();
        }
        try {
            g.scans = 0;
            g.budget = (uint64_t)n + listLen;
            auto ap = alg::findAllVertexPredecessors(g, s);
            ++C.scanBoundChecks;
            C.maxScanRatioPermille = std::max<uint64_t>(C.maxScanRatioPermille, g.scans * 1000 / (n + listLen + 1));
            for (VertexIndex v = 0; v < n; ++v) {
                if (ap.first[v] != d[v]) ++C.wrongResultsSeenInWorkCheck;
                size_t want = 0;
                if (v != s && d[v] != UNREACH) {
                    std::set<VertexIndex> par;
                    for (VertexIndex u = 0; u < n; ++u)
                        if (d[u] != UNREACH && d[u] + 1 == d[v] && hasArc(adj, u, v)) par.insert(u);
                    want = par.size();
                }
                if (ap.second[v].size() != want) ++C.wrongResultsSeenInWorkCheck;
            }
        } catch (BudgetExceeded &b) {
            ++C.budgetsHit;
            o << "work-bound: findAllVertexPredecessors(source " << s << ") scanned more than V+E=" << b.budget << " neighbourhoods (V=" << n << ", E=" << listLen << ")";
            return o.str();
        }
    }
    return "";
}

// ------------------------------------------------------------------ C19: search for wasted work, then amplify it
// The bound V+E+1 leaves a slack of about V plus the edges that never relax, so an implementation that now and then expands
// a vertex BEFORE its distance is final stays inside it on ordinary graphs. This monitor looks for that symptom on small
// dense graphs: the order of neighbourhood scans is recorded, the search's tentative distances are replayed along it, and a
// scan of v at a tentative distance above v's true distance is a premature expansion (it cannot happen when vertices are
// taken in order of tentative distance). When one is seen, the base graph is copied six times in a chain and the
// prematurely expanded vertex of every copy points to a set of shared sinks, with weights chosen so that each copy improves
// every sink: once per copy when expansions are in order, twice when the premature one happens again. The stated bound is
// then enforced on the amplified graph. On an implementation that expands in distance order nothing is ever amplified.
struct SearchStats {
    uint64_t bases = 0, premature = 0, amplified = 0, fractional = 0;
} SS;
std::string searchAndAmplify(Rng &r, std::string &desc) {
    for (int attempt = 0; attempt < 150; ++attempt) {
        unsigned nb = 5 + r.u(7);
        // half of the bases carry weights k/32: most path lengths then fall between the same two integers, which is where a
        // priority that has lost its fraction (an integer key, a float key) stops ordering the queue
        double scale = r.chance(1, 2) ? 1.0 : 1.0 / 32;
        if (scale != 1.0) ++SS.fractional;
        std::vector<std::pair<Edge, double>> edges;
        for (unsigned a = 0; a < nb; ++a)
            for (unsigned b = 0; b < nb; ++b)
                if (a != b && r.chance(1, 2)) edges.push_back({{a, b}, scale * (double)(1 + r.u(r.chance(1, 2) ? 9 : 20))});
        for (size_t i = edges.size(); i > 1; --i) std::swap(edges[i - 1], edges[r.u((unsigned)i)]);
        ++SS.bases;
        CountDW g(nb);
        for (auto &e : edges) g.addEdge(e.first.first, e.first.second, e.second);
        std::vector<VertexIndex> trace;
        g.trace = &trace;
        g.budget = 100000;
        try {
            (void)alg::findGeodesicsDijkstra(g, 0);
        } catch (BudgetExceeded &) {
            return "work-bound: findGeodesicsDijkstra scanned more than 100000 neighbourhoods on a graph of " + std::to_string(nb) + " vertices";
        }
        g.trace = nullptr;
        std::vector<double> d(nb, 1e18); // true distances
        d[0] = 0;
        for (unsigned round = 0; round < nb; ++round)
            for (auto &e : edges)
                if (d[e.first.first] + e.second < d[e.first.second]) d[e.first.second] = d[e.first.first] + e.second;
        // replay the tentative distances along the recorded scan order
        std::vector<double> td(nb, 1e18);
        td[0] = 0;
        int prem = -1;
        for (auto v : trace) {
            if (v >= nb) break;
            if (td[v] > d[v] && prem < 0) prem = (int)v;
            for (auto x : g.rawNeighbours(v)) {
                double w = g.getEdgeWeight(v, x);
                if (td[v] + w < td[x]) td[x] = td[v] + w;
            }
        }
        if (prem < 0) continue;
        ++SS.premature;
        unsigned k = 6, sinks = 2 * ((unsigned)edges.size() + nb);
        double span = 0;
        VertexIndex far = 0;
        for (unsigned v = 0; v < nb; ++v)
            if (d[v] < 1e17 && d[v] >= span) { span = d[v]; far = v; }
        double STEP = 2 * span + 3, BIG = STEP * (k + 1) + 10;
        CountDW a(k * nb + sinks);
        uint64_t listLen = 0;
        for (unsigned c = 0; c < k; ++c) {
            for (auto &e : edges) { a.addEdge(c * nb + e.first.first, c * nb + e.first.second, e.second); ++listLen; }
            for (unsigned t = 0; t < sinks; ++t) { a.addEdge(c * nb + (unsigned)prem, k * nb + t, BIG - c * STEP); ++listLen; }
            if (c + 1 < k) { a.addEdge(c * nb + far, (c + 1) * nb, 1.0); ++listLen; }
        }
        ++SS.amplified;
        a.budget = (uint64_t)a.getSize() + listLen + 1;
        std::ostringstream o;
        o << "amplified(" << k << " chained copies of a " << nb << "-vertex base with edges [";
        for (auto &e : edges) o << "(" << e.first.first << "," << e.first.second << ")=" << e.second << " ";
        o << "], vertex " << prem << " of every copy joined to " << sinks << " shared sinks)";
        desc = o.str();
        try {
            (void)alg::findGeodesicsDijkstra(a, 0);
        } catch (BudgetExceeded &b) {
            ++C.budgetsHit;
            return "work-bound: findGeodesicsDijkstra(source 0) scanned more than " + std::to_string(b.budget) + " neighbourhoods (V=" + std::to_string(a.getSize()) + ", E=" + std::to_string(listLen) +
                   ") on a graph amplified from a base in which vertex " + std::to_string(prem) + " was expanded before its distance was final";
        }
        ++C.scanBoundChecks;
        return "";
    }
    return "";
}

std::string obs(const std::string &m) {
    size_t p = m.find_first_of(":(");
    return p == std::string::npos ? m : m.substr(0, p);
}
std::vector<VertexIndex> pickSources(unsigned n, Rng &r) {
    std::vector<VertexIndex> s;
    if (n <= 40)
        for (VertexIndex v = 0; v < n; ++v) s.push_back(v);
    else {
        s.push_back(0);
        s.push_back(n - 1);
        for (int i = 0; i < 6; ++i) s.push_back(r.u(n));
    }
    return s;
}

} // namespace

int main(int argc, char **argv) {
    Reporter R;
    R.args = parseArgs(argc, argv);
    R.openProgress();
    const std::string prop = R.args.prop;
    bool thorough = R.args.tier == "thorough";
    uint64_t seed = R.args.seed;
    std::string curDesc;
    R.describeCase = [&] { return "{\"graph\": " + q(curDesc) + "}"; };

    if (prop == "C11" || prop == "C12") {
        unsigned variants = 2;
        // every 30th random graph has 25-130 vertices and one or two hubs (BFS levels of 48 and more, queues longer than 64)
        uint64_t nrandom = (uint64_t)R.args.geti("random", thorough ? (prop == "C12" ? 200000 : 60000) : 3000);
        SpecSpace sd(true, thorough ? 4 : 3, nrandom, 4, 14, 30, 130);
        SpecSpace su(false, thorough ? 5 : 4, nrandom, 4, 14, 30, 130);
        uint64_t nfam = thorough ? 1200 : 240;
        uint64_t nbig = (uint64_t)R.args.geti("big", 0); // graphs of 65535 .. 100003 vertices (the property checks ask for them, the reduced C17 workloads do not)
        uint64_t total = (sd.count() + su.count()) * variants + nfam + nbig;
        if (R.args.mode == "count") {
            printf("%llu\n", (unsigned long long)total);
            return 0;
        }
        forCases(R, total, "paths", [&](uint64_t idx) {
            GraphSpec s;
            unsigned variant = 0;
            std::string name;
            if (idx < (sd.count() + su.count()) * variants) {
                uint64_t si = idx / variants;
                variant = (unsigned)(idx % variants) * 2; // as enumerated / shuffled
                s = si < sd.count() ? sd.at(si, seed) : su.at(si - sd.count(), seed);
                R.count(s.exhaustive ? "graphs_from_exhaustive_enumeration" : (s.n >= 25 ? "graphs_random_25_to_132_vertices_with_hubs" : "graphs_random"));
            } else if (idx < (sd.count() + su.count()) * variants + nfam) {
                Family f = familyAt(idx - (sd.count() + su.count()) * variants, true, seed);
                s = f.s;
                name = f.name + " ";
                variant = 2;
                R.count("graphs_from_tie_rich_families");
            } else {
                uint64_t k = idx - ((sd.count() + su.count()) * variants + nfam);
                static const unsigned bigN[] = {65536, 92682, 65537, 100003, 65535};
                static const unsigned bigN12[] = {65536, 92682, 65537, 131072, 65535};
                Rng rb = caseRng(seed, 0xb16, k);
                s = prop == "C11" ? bigShallow(k % 2 == 0, bigN[(k / 2) % 5], rb) : bigIslands(k % 2 == 0, bigN12[(k / 2) % 5], rb);
                variant = 0;
                Rng r = caseRng(seed, 0xc11, idx);
                curDesc = std::string(s.directed ? "directed" : "undirected") + (prop == "C11" ? " shallow random graph" : " graph with 300 non-isolated vertices") + ", n=" +
                          std::to_string(s.n) + " edges=" + std::to_string(s.edges.size()) + " (big family, case " + std::to_string(k) + ")";
                ++C.graphs;
                R.count("graphs_of_65535_to_100003_vertices");
                R.distinct.insert(mix64(s.hash(), 77));
                std::vector<VertexIndex> sources = {0, s.n - 1, (VertexIndex)rb.u(s.n)};
                if (prop == "C12") sources.push_back(s.edges[rb.u((unsigned)s.edges.size())].first);
                std::string e, cls;
                if (prop == "C11") {
                    if (s.directed) { auto g = buildUnweighted<CountDir<NoLabel>>(s, variant, r); e = c11(g, false, &sources, 5); cls = "LabeledDirectedGraph<NoLabel>"; }
                    else { auto g = buildUnweighted<CountUnd<NoLabel>>(s, variant, r); e = c11(g, false, &sources, 5); cls = "LabeledUndirectedGraph<NoLabel>"; }
                } else {
                    WSpec ws = weigh(s, k % 3 == 0 ? 5 : 1, r);
                    if (s.directed) { auto g = buildWeighted<CountDW>(ws, variant, r); e = c12(g, ws, 0, &sources); cls = "DirectedWeightedGraph"; }
                    else { auto g = buildWeighted<CountUW>(ws, variant, r); e = c12(g, ws, 0, &sources); cls = "UndirectedWeightedGraph"; }
                }
                if (!e.empty()) R.violation(cls + "/" + obs(e), e + " on " + curDesc);
                return;
            }
            curDesc = name + s.str();
            ++C.graphs;
            R.distinct.insert(mix64(s.hash(), variant));
            Rng r = caseRng(seed, 0xc11, idx);
            std::string e, cls, dg;
            digestSink = &dg;
            if (prop == "C11") {
                bool intLabel = idx % 2;
                // every fifth graph carries forced duplicates of about a third of its edges ("every graph": parallel entries in the
                // neighbour lists make neither new vertices, nor new hop counts, nor new vertex paths)
                unsigned copies = idx % 5 == 3 ? SOME_DUPLICATED : 1;
                if (copies != 1) R.count("graphs_with_forced_duplicate_edges");
                if (s.directed) {
                    if (intLabel) { auto g = buildUnweighted<CountDir<int>>(s, variant, r, copies); e = c11(g, s.n <= 16); cls = "LabeledDirectedGraph<int>"; }
                    else { auto g = buildUnweighted<CountDir<NoLabel>>(s, variant, r, copies); e = c11(g, s.n <= 16); cls = "LabeledDirectedGraph<NoLabel>"; }
                } else {
                    if (intLabel) { auto g = buildUnweighted<CountUnd<int>>(s, variant, r, copies); e = c11(g, s.n <= 16); cls = "LabeledUndirectedGraph<int>"; }
                    else { auto g = buildUnweighted<CountUnd<NoLabel>>(s, variant, r, copies); e = c11(g, s.n <= 16); cls = "LabeledUndirectedGraph<NoLabel>"; }
                }
            } else {
                // small exhaustive topologies get every alphabet, the rest one seeded alphabet
                int nalpha = s.exhaustive && s.n <= 3 ? 7 : 2;
                for (int a = 0; a < nalpha && e.empty(); ++a) {
                    int alphabet = nalpha == 7 ? a : (a == 0 ? (int)(idx % 4) : 4 + (int)((idx / 4) % 3));
                    WSpec ws = weigh(s, alphabet, r);
                    static const char *an[] = {"0123", "dyadic", "random_double", "all_zero", "by_index_distance", "integers_1_to_9", "multiples_of_2^-60"};
                    R.count(std::string("weight_alphabet_") + an[alphabet]);
                    if (s.directed) { auto g = buildWeighted<CountDW>(ws, variant, r); e = c12(g, ws, 0); cls = "DirectedWeightedGraph"; }
                    else { auto g = buildWeighted<CountUW>(ws, variant, r); e = c12(g, ws, 0); cls = "UndirectedWeightedGraph"; }
                    if (!e.empty()) {
                        std::ostringstream o;
                        o.precision(17);
                        o << " weights{";
                        for (auto &kv : ws.w) o << "(" << kv.first.first << "," << kv.first.second << ")=" << kv.second << " ";
                        curDesc += o.str() + "}";
                    }
                }
            }
            digestSink = nullptr;
            R.digest(dg);
            if (!e.empty()) R.violation(cls + "/" + obs(e), e + " on " + curDesc);
            if (idx % 499 == 7 && R.samples.size() < 5) R.sample("{\"graph\": " + q(curDesc) + "}");
        });
    } else if (prop == "C19") {
        uint64_t nfam = thorough ? 60000 : 1200;
        uint64_t nrand = thorough ? 240000 : 2400;
        uint64_t total = nfam + nrand;
        if (R.args.mode == "count") {
            printf("%llu\n", (unsigned long long)total);
            return 0;
        }
        SpecSpace rd(true, 0, nrand, 5, 40), ru(false, 0, nrand, 5, 40);
        forCases(R, total, "paths", [&](uint64_t idx) {
            GraphSpec s;
            std::string name;
            unsigned ampBase = 0;
            if (idx < nfam) {
                Family f = familyAt(idx, false, seed);
                s = f.s;
                name = f.name + " ";
                ampBase = f.ampBase;
                R.count("graphs_from_families");
            } else {
                uint64_t k = idx - nfam;
                s = (k % 2) ? rd.at(rd.exhaustiveCount() + k / 2, seed) : ru.at(ru.exhaustiveCount() + k / 2, seed);
                R.count("graphs_random");
            }
            curDesc = name + (s.edges.size() > 60 ? (std::string(s.directed ? "directed" : "undirected") + " n=" + std::to_string(s.n) + " edges=" + std::to_string(s.edges.size())) : s.str());
            ++C.graphs;
            R.distinct.insert(s.hash());
            Rng r = caseRng(seed, 0xc19, idx);
            auto sources = pickSources(s.n, r);
            std::string e, cls;
            unsigned variant = idx % 2 ? 2 : 0;
            // every third case holds each edge twice or three times (forced duplicates are graphs too; E counts list entries)
            unsigned copies = idx % 3 == 2 ? 2 + (unsigned)(idx % 2) : 1;
            if (copies > 1) R.count("graphs_with_forced_duplicate_edges");
            if (s.directed) { auto g = buildUnweighted<CountDir<NoLabel>>(s, variant, r, copies); e = c19bfs(g, sources); cls = "LabeledDirectedGraph<NoLabel>"; }
            else { auto g = buildUnweighted<CountUnd<NoLabel>>(s, variant, r, copies); e = c19bfs(g, sources); cls = "LabeledUndirectedGraph<NoLabel>"; }
            if (!e.empty()) { R.violation(cls + "/" + obs(e) + "/" + (e.find("findAll") != std::string::npos ? "findAllVertexPredecessors" : "findVertexPredecessors"), e + " on " + curDesc); return; }
            // Dijkstra with the exact bound V+E+1; zero weights, zero cycles, ties. Keep it to moderate sizes (every source is run).
            if (s.n <= 60) {
                static const int c19alpha[] = {0, 1, 4, 3, 5, 4};
                int alphabet = c19alpha[idx % 6];
                WSpec ws = ampBase ? weighAmplified(s, ampBase, r) : weigh(s, alphabet, r);
                if (ampBase) R.count("dijkstra_amplifier_graphs");
                uint64_t listLen = 0;
                if (s.directed) {
                    auto g = buildWeighted<CountDW>(ws, variant, r);
                    for (VertexIndex v = 0; v < s.n; ++v) listLen += g.rawNeighbours(v).size();
                    e = c12(g, ws, (uint64_t)s.n + listLen + 1);
                    cls = "DirectedWeightedGraph";
                } else {
                    auto g = buildWeighted<CountUW>(ws, variant, r);
                    for (VertexIndex v = 0; v < s.n; ++v) listLen += g.rawNeighbours(v).size();
                    e = c12(g, ws, (uint64_t)s.n + listLen + 1);
                    cls = "UndirectedWeightedGraph";
                }
                if (!e.empty()) { R.violation(cls + "/" + obs(e) + "/findGeodesicsDijkstra", e + " on " + curDesc); return; }
            }
            if (idx % 4 == 1) {
                std::string desc;
                e = searchAndAmplify(r, desc);
                if (!e.empty()) { R.violation("DirectedWeightedGraph/work-bound/findGeodesicsDijkstra", e + " on " + desc); return; }
            }
            if (idx % 97 == 5 && R.samples.size() < 5) R.sample("{\"graph\": " + q(curDesc) + "}");
        });
    } else {
        fprintf(stderr, "paths: unknown property %s\n", prop.c_str());
        return 2;
    }
    R.count("graphs", C.graphs);
    R.count("sources", C.sources);
    R.count("source_destination_pairs", C.pairs);
    R.count("distance_checks", C.distChecks);
    R.count("single_predecessor_checks", C.predChecks);
    R.count("all_predecessor_set_checks", C.allPredChecks);
    R.count("paths_validated_edge_by_edge", C.pathsValidated);
    R.count("all_shortest_path_sets_compared", C.allPathSets);
    R.count("shortest_paths_enumerated_by_reference", C.allPathsCompared);
    R.count("path_sets_skipped_more_than_3000_paths", C.pathSetsSkippedTooMany);
    R.count("unreachable_pairs", C.unreachablePairs);
    R.count("pairs_with_several_shortest_paths", C.tiedPairs);
    R.count("dijkstra_runs", C.dijkstraRuns);
    R.count("dijkstra_tree_edges_checked", C.dijkstraTreeEdges);
    R.count("dijkstra_tree_edges_of_weight_zero", C.zeroWeightEdges);
    R.count("scan_bound_checks", C.scanBoundChecks);
    R.count("searches_from_sources_with_over_1e6_shortest_paths", C.graphsWithExpManyPaths);
    R.counter("log2_of_most_shortest_paths_to_one_vertex_max") = C.maxShortestPathsSeenLog2;
    R.counter("scans_per_mille_of_V_plus_E_plus_1_max") = C.maxScanRatioPermille;
    R.count("budgets_hit", C.budgetsHit);
    R.count("rejected_calls_made_on_a_graph_before_it_is_searched", rejectedBeforeSearch);
    R.count("small_dense_bases_searched_for_premature_expansion", SS.bases);
    R.count("bases_with_a_premature_expansion", SS.premature);
    R.count("bases_with_weights_in_32nds", SS.fractional);
    R.count("amplified_graphs_checked_against_the_bound", SS.amplified);
    R.count("wrong_results_seen_but_left_to_C11", C.wrongResultsSeenInWorkCheck);
    R.write();
    return R.viols.empty() ? 0 : 1;
}
