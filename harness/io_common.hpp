// Helpers shared by the file-IO monitors (C13, C14, C15).
#pragma once
#include "shape.hpp"
#include "snapshot.hpp"

#include "BaseGraph/fileio.hpp"

#include <climits>
#include <fstream>

namespace vf {

struct IoRunner {
    std::string name;
    // mode: "roundtrip" "format" "names" (C13), "binary" "handmade" "openfail" (C14), "truncate" "fuzz" (C15)
    std::function<void(Reporter &, const std::string &mode, uint64_t sub, bool isolate)> run;
    std::vector<std::string> modes;
};
std::vector<IoRunner> &ioRunners();
struct RegisterIo {
    RegisterIo(IoRunner r) { ioRunners().push_back(std::move(r)); }
};

inline std::string ioTmp(Reporter &R, const std::string &suffix) {
    std::string d = R.args.workDir.empty() ? std::string("/tmp") : R.args.workDir;
    return d + "/io-" + std::to_string(getpid()) + "-" + suffix;
}
inline bool writeBytes(const std::string &p, const std::string &bytes) {
    FILE *f = fopen(p.c_str(), "wb");
    if (!f) return false;
    if (!bytes.empty()) fwrite(bytes.data(), 1, bytes.size(), f);
    fclose(f);
    return true;
}
inline std::string readBytes(const std::string &p) {
    std::string s;
    FILE *f = fopen(p.c_str(), "rb");
    if (!f) return s;
    char b[8192];
    size_t n;
    while ((n = fread(b, 1, sizeof b, f)) > 0) s.append(b, n);
    fclose(f);
    return s;
}
inline std::string hexOf(const std::string &s, size_t cap = 96) {
    static const char *h = "0123456789abcdef";
    std::string o;
    for (size_t i = 0; i < s.size() && i < cap; ++i) {
        o += h[(unsigned char)s[i] >> 4];
        o += h[(unsigned char)s[i] & 15];
    }
    if (s.size() > cap) o += "...";
    return o;
}
template <class T> void putLE(std::string &o, T v) {
    unsigned char b[sizeof(T)];
    memcpy(b, &v, sizeof(T)); // this host is little-endian (checked at start-up)
    o.append((const char *)b, sizeof(T));
}
inline bool hostIsLittleEndian() {
    uint32_t x = 0x01020304;
    unsigned char b[4];
    memcpy(b, &x, 4);
    return b[0] == 4;
}

// a seeded random graph spec with isolated tails, loops, possibly no edges / no vertices
inline GraphSpec ioSpec(Rng &r, bool directed) {
    GraphSpec g;
    g.directed = directed;
    unsigned c = r.u(20);
    if (c == 0) { g.n = 0; return g; }
    if (c == 1) { g.n = 1 + r.u(5); return g; } // vertices but no edge
    unsigned used = 1 + r.u(9);
    g.n = used + (r.chance(1, 2) ? r.u(4) : 0); // isolated tail beyond the largest used index
    unsigned target = 1 + r.u(used * 2);
    std::set<Edge> seen;
    for (unsigned t = 0; t < target * 3 && seen.size() < target; ++t) {
        VertexIndex a = r.u(used), b = r.chance(1, 6) ? a : r.u(used);
        Edge e = canon(directed, a, b);
        if (seen.insert(e).second) g.edges.push_back(e);
    }
    return g;
}
// few edges among large, byte-pattern-rich vertex indices (255, 256, 511, 65535, 65536, ...)
inline GraphSpec ioSpecSparse(Rng &r, bool directed) {
    static const unsigned interesting[] = {0, 1, 10, 13, 26, 32, 35, 127, 128, 254, 255, 256, 257, 511, 512, 767, 1000, 4095, 4351, 9999, 65279, 65535, 65536, 65791, 70000};
    GraphSpec g;
    g.directed = directed;
    unsigned target = 1 + r.u(12);
    std::set<Edge> seen;
    unsigned cap = r.chance(1, 2) ? 25 : 18; // half of the cases stay below 4352 vertices
    for (unsigned t = 0; t < target * 3 && seen.size() < target; ++t) {
        VertexIndex a = interesting[r.u(cap)], b = r.chance(1, 6) ? a : interesting[r.u(cap)];
        if (r.chance(1, 4)) a += r.u(3);
        Edge e = canon(directed, a, b);
        if (seen.insert(e).second) g.edges.push_back(e);
    }
    unsigned used = 0;
    for (auto &e : g.edges) used = std::max(used, std::max(e.first, e.second) + 1);
    g.n = used + (r.chance(1, 3) ? r.u(300) : 0);
    return g;
}
// structural comparison that does not enumerate all vertex pairs (large sparse graphs)
template <class G> std::string checkSparse(const G &g, const GraphSpec &s) {
    std::ostringstream o;
    if (g.getSize() != s.n) {
        o << "getSize: expected " << s.n << " got " << g.getSize();
        return o.str();
    }
    if (g.getEdgeNumber() != s.edges.size()) {
        o << "getEdgeNumber: expected " << s.edges.size() << " got " << g.getEdgeNumber();
        return o.str();
    }
    std::vector<Edge> got;
    if (!collectEdges(g, s.edges.size() * 2 + 8, got)) return "edges(): enumeration did not end";
    for (auto &e : got) e = canon(s.directed, e.first, e.second);
    std::sort(got.begin(), got.end());
    std::vector<Edge> want = s.edges;
    std::sort(want.begin(), want.end());
    if (got != want) {
        o << "edges(): " << got.size() << " edges enumerated, they are not the " << want.size() << " expected ones";
        return o.str();
    }
    for (auto &e : s.edges)
        if (!g.hasEdge(e.first, e.second) || (!s.directed && !g.hasEdge(e.second, e.first))) {
            o << "hasEdge(" << e.first << "," << e.second << "): expected true";
            return o.str();
        }
    return "";
}
// many edges: files of tens of kilobytes, so that reads and writes cross the stream buffer several times
inline GraphSpec ioSpecBig(Rng &r, bool directed) {
    GraphSpec g;
    g.directed = directed;
    unsigned n = 200 + r.u(1500);
    g.n = n + r.u(5);
    // edge counts at and around powers of two (block / buffer sizes), or anything up to 9000 (text files beyond 64 KiB)
    static const unsigned boundary[] = {255, 256, 257, 511, 512, 513, 1023, 1024, 1025, 1536, 2047, 2048, 2049, 4095, 4096, 4097, 8191, 8192, 8193};
    unsigned target = r.chance(1, 2) ? boundary[r.u(19)] : 500 + r.u(8500);
    std::set<Edge> seen;
    for (unsigned t = 0; t < target * 20 && seen.size() < target; ++t) { // exactly `target` edges
        VertexIndex a = r.u(n), b = r.chance(1, 40) ? a : r.u(n);
        Edge e = canon(directed, a, b);
        if (seen.insert(e).second) g.edges.push_back(e);
    }
    return g;
}
// what std::stoi would do with a token: value class
enum NumClass { NC_SMALL, NC_NEGATIVE, NC_OVERFLOW, NC_NOT_A_NUMBER, NC_TOO_BIG_TO_ALLOCATE };
inline NumClass classifyToken(const std::string &t) {
    size_t i = 0;
    while (i < t.size() && isspace((unsigned char)t[i])) ++i;
    bool neg = false;
    if (i < t.size() && (t[i] == '+' || t[i] == '-')) { neg = t[i] == '-'; ++i; }
    size_t st = i;
    long long v = 0;
    bool over = false;
    while (i < t.size() && isdigit((unsigned char)t[i])) {
        v = v * 10 + (t[i] - '0');
        if (v > (long long)INT_MAX + 1) over = true;
        if (v > (1LL << 40)) v = 1LL << 40;
        ++i;
    }
    if (i == st) return NC_NOT_A_NUMBER;
    if (over || (!neg && v > INT_MAX)) return NC_OVERFLOW;
    if (neg && v > 0) return NC_NEGATIVE;
    if (v > 2000) return NC_TOO_BIG_TO_ALLOCATE;
    return NC_SMALL;
}
// keeps vertex indices "small enough to allocate": drops lines whose first two
// tokens (as the loader's tokeniser sees them) are numbers in (2000, INT_MAX]
inline std::string filterAllocatable(const std::string &text) {
    std::string out;
    size_t st = 0;
    const char *ws = " \t\n\r\f\v";
    while (st <= text.size()) {
        size_t nl = text.find('\n', st);
        std::string line = nl == std::string::npos ? text.substr(st) : text.substr(st, nl - st);
        bool drop = false;
        if (!(line.size() && line[0] == '#')) {
            size_t p1 = line.find_first_not_of(ws);
            if (p1 != std::string::npos) {
                size_t p2 = line.find_first_of(ws, p1);
                std::string t1 = line.substr(p1, p2 == std::string::npos ? std::string::npos : p2 - p1);
                if (classifyToken(t1) == NC_TOO_BIG_TO_ALLOCATE) drop = true;
                size_t p3 = p2 == std::string::npos ? std::string::npos : line.find_first_not_of(ws, p2);
                if (p3 != std::string::npos) {
                    size_t p4 = line.find_first_of(ws, p3);
                    std::string t2 = line.substr(p3, p4 == std::string::npos ? std::string::npos : p4 - p3);
                    if (classifyToken(t2) == NC_TOO_BIG_TO_ALLOCATE) drop = true;
                }
            }
        }
        if (!drop) {
            out += line;
            if (nl != std::string::npos) out += "\n";
        }
        if (nl == std::string::npos) break;
        st = nl + 1;
    }
    return out;
}

inline unsigned usedSize(const GraphSpec &s) {
    unsigned m = 0;
    for (auto &e : s.edges) m = std::max(m, std::max(e.first, e.second) + 1);
    return m;
}

} // namespace vf
