// Helpers shared by the file-IO monitors (C13, C14, C15).
#pragma once
#include "shape.hpp"
#include "snapshot.hpp"

#include "BaseGraph/fileio.hpp"

#include <fstream>

namespace vf {

struct IoRunner {
    std::string name;
    // mode: "roundtrip" "format" "names" (C13), "binary" "handmade" "openfail" (C14), "truncate" "fuzz" (C15)
    std::function<void(Reporter &, const std::string &mode, uint64_t sub, bool isolate)> run;
    std::vector<std::string> modes;
};
std::vector<IoRunner> &ioRunners();
struct RegisterIo {
    RegisterIo(IoRunner r) { ioRunners().push_back(std::move(r)); }
};

inline std::string ioTmp(Reporter &R, const std::string &suffix) {
    std::string d = R.args.workDir.empty() ? std::string("/tmp") : R.args.workDir;
    return d + "/io-" + std::to_string(getpid()) + "-" + suffix;
}
inline bool writeBytes(const std::string &p, const std::string &bytes) {
    FILE *f = fopen(p.c_str(), "wb");
    if (!f) return false;
    if (!bytes.empty()) fwrite(bytes.data(), 1, bytes.size(), f);
    fclose(f);
    return true;
}
inline std::string readBytes(const std::string &p) {
    std::string s;
    FILE *f = fopen(p.c_str(), "rb");
    if (!f) return s;
    char b[8192];
    size_t n;
    while ((n = fread(b, 1, sizeof b, f)) > 0) s.append(b, n);
    fclose(f);
    return s;
}
inline std::string hexOf(const std::string &s, size_t cap = 96) {
    static const char *h = "0123456789abcdef";
    std::string o;
    for (size_t i = 0; i < s.size() && i < cap; ++i) {
        o += h[(unsigned char)s[i] >> 4];
        o += h[(unsigned char)s[i] & 15];
    }
    if (s.size() > cap) o += "...";
    return o;
}
template <class T> void putLE(std::string &o, T v) {
    unsigned char b[sizeof(T)];
    memcpy(b, &v, sizeof(T)); // this host is little-endian (checked at start-up)
    o.append((const char *)b, sizeof(T));
}
inline bool hostIsLittleEndian() {
    uint32_t x = 0x01020304;
    unsigned char b[4];
    memcpy(b, &x, 4);
    return b[0] == 4;
}

// a seeded random graph spec with isolated tails, loops, possibly no edges / no vertices
inline GraphSpec ioSpec(Rng &r, bool directed) {
    GraphSpec g;
    g.directed = directed;
    unsigned c = r.u(20);
    if (c == 0) { g.n = 0; return g; }
    if (c == 1) { g.n = 1 + r.u(5); return g; } // vertices but no edge
    unsigned used = 1 + r.u(9);
    g.n = used + (r.chance(1, 2) ? r.u(4) : 0); // isolated tail beyond the largest used index
    unsigned target = 1 + r.u(used * 2);
    std::set<Edge> seen;
    for (unsigned t = 0; t < target * 3 && seen.size() < target; ++t) {
        VertexIndex a = r.u(used), b = r.chance(1, 6) ? a : r.u(used);
        Edge e = canon(directed, a, b);
        if (seen.insert(e).second) g.edges.push_back(e);
    }
    return g;
}
// few edges among large, byte-pattern-rich vertex indices (255, 256, 511, 65535, 65536, ...)
inline GraphSpec ioSpecSparse(Rng &r, bool directed) {
    static const unsigned interesting[] = {0, 1, 10, 13, 26, 32, 35, 127, 128, 254, 255, 256, 257, 511, 512, 767, 1000, 4095, 4351, 9999, 65279, 65535, 65536, 65791, 70000};
    GraphSpec g;
    g.directed = directed;
    unsigned target = 1 + r.u(12);
    std::set<Edge> seen;
    unsigned cap = r.chance(1, 2) ? 25 : 18; // half of the cases stay below 4352 vertices
    for (unsigned t = 0; t < target * 3 && seen.size() < target; ++t) {
        VertexIndex a = interesting[r.u(cap)], b = r.chance(1, 6) ? a : interesting[r.u(cap)];
        if (r.chance(1, 4)) a += r.u(3);
        Edge e = canon(directed, a, b);
        if (seen.insert(e).second) g.edges.push_back(e);
    }
    unsigned used = 0;
    for (auto &e : g.edges) used = std::max(used, std::max(e.first, e.second) + 1);
    g.n = used + (r.chance(1, 3) ? r.u(300) : 0);
    return g;
}
// structural comparison that does not enumerate all vertex pairs (large sparse graphs)
template <class G> std::string checkSparse(const G &g, const GraphSpec &s) {
    std::ostringstream o;
    if (g.getSize() != s.n) {
        o << "getSize: expected " << s.n << " got " << g.getSize();
        return o.str();
    }
    if (g.getEdgeNumber() != s.edges.size()) {
        o << "getEdgeNumber: expected " << s.edges.size() << " got " << g.getEdgeNumber();
        return o.str();
    }
    std::vector<Edge> got;
    if (!collectEdges(g, s.edges.size() * 2 + 8, got)) return "edges(): enumeration did not end";
    for (auto &e : got) e = canon(s.directed, e.first, e.second);
    std::sort(got.begin(), got.end());
    std::vector<Edge> want = s.edges;
    std::sort(want.begin(), want.end());
    if (got != want) {
        o << "edges(): " << got.size() << " edges enumerated, they are not the " << want.size() << " expected ones";
        return o.str();
    }
    for (auto &e : s.edges)
        if (!g.hasEdge(e.first, e.second) || (!s.directed && !g.hasEdge(e.second, e.first))) {
            o << "hasEdge(" << e.first << "," << e.second << "): expected true";
            return o.str();
        }
    return "";
}
// many edges: files of tens of kilobytes, so that reads and writes cross the stream buffer several times
inline GraphSpec ioSpecBig(Rng &r, bool directed) {
    GraphSpec g;
    g.directed = directed;
    unsigned n = 200 + r.u(1500);
    g.n = n + r.u(5);
    // edge counts at and around powers of two (block / buffer sizes), or anything up to 9000 (text files beyond 64 KiB)
    static const unsigned boundary[] = {255, 256, 257, 511, 512, 513, 1023, 1024, 1025, 1536, 2047, 2048, 2049, 4095, 4096, 4097, 8191, 8192, 8193};
    unsigned target = r.chance(1, 2) ? boundary[r.u(19)] : 500 + r.u(8500);
    std::set<Edge> seen;
    for (unsigned t = 0; t < target * 20 && seen.size() < target; ++t) { // exactly `target` edges
        VertexIndex a = r.u(n), b = r.chance(1, 40) ? a : r.u(n);
        Edge e = canon(directed, a, b);
        if (seen.insert(e).second) g.edges.push_back(e);
    }
    return g;
}
inline unsigned usedSize(const GraphSpec &s) {
    unsigned m = 0;
    for (auto &e : s.edges) m = std::max(m, std::max(e.first, e.second) + 1);
    return m;
}

} // namespace vf
