// Shape monitors for the multigraph and weighted classes: C08 enumeration,
// C09 edge-list constructors (multigraphs; the weighted ones live in
// shape_wctor.cpp because they may fail to instantiate) and copies.
#include "shape.hpp"
#include "snapshot.hpp"

#include "BaseGraph/fileio.hpp"

#include <deque>
#include <forward_list>
#include <list>

namespace vf {
namespace {
using namespace BaseGraph;

struct Counters {
    uint64_t assignments = 0, bigMultCtor = 0, remutated = 0, graphs = 0, iterSteps = 0, ctorChecks = 0, copies = 0, filesWritten = 0, emptyGraphs = 0, zeroVertex = 0;
    ObsCounters oc;
} C;

std::string obs(const std::string &m) {
    size_t p = m.find_first_of(":(");
    return p == std::string::npos ? m : m.substr(0, p);
}
template <class G> bool eq3(const G &a, const G &b) { return (a == b) && (b == a) && !(a != b) && !(b != a); }

template <class G> struct IsMulti { static constexpr bool value = false; };
template <> struct IsMulti<DirectedMultigraph> { static constexpr bool value = true; };
template <> struct IsMulti<UndirectedMultigraph> { static constexpr bool value = true; };

unsigned valueOf(const Edge &k, uint64_t salt) { return 1 + (unsigned)(stampOf(k, salt) % 4); }

template <class G> G buildOther(const GraphSpec &s, unsigned variant, Rng &r, uint64_t salt, Expect &x) {
    G g(s.n);
    x.directed = s.directed;
    x.n = s.n;
    for (auto &e : insertionOrder(s, variant, r)) {
        Edge k = canon(s.directed, e.first, e.second);
        unsigned v = valueOf(k, salt);
        Expect::Cell c;
        if constexpr (IsMulti<G>::value) {
            g.addMultiedge(e.first, e.second, v);
            c.unit = v;
        } else {
            g.addEdge(e.first, e.second, (double)v / 2.0);
        }
        x.e[k] = c;
    }
    return g;
}

std::string tmpFile(Reporter &R, const char *suffix) {
    std::string d = R.args.workDir.empty() ? std::string("/tmp") : R.args.workDir;
    return d + "/shapeo-" + std::to_string(getpid()) + suffix;
}

template <class G> void c08(Reporter &R, const std::string &cls, const GraphSpec &s, unsigned variant, uint64_t idx) {
    Rng r = caseRng(R.args.seed, hashStr(cls + "c08"), idx);
    Expect x;
    G g = buildOther<G>(s, variant, r, 11, x);
    ++C.graphs;
    if (s.edges.empty()) ++C.emptyGraphs;
    if (s.n == 0) ++C.zeroVertex;
    std::string e = checkIteration(g, s.edges.size(), C.iterSteps);
    if (!e.empty()) { R.violation(cls + "/edges()/" + obs(e), e + " on " + s.str()); return; }
    e = checkEnumeration(g, x, C.oc);
    if (!e.empty()) { R.violation(cls + "/enumeration/" + obs(e), e + " on " + s.str()); return; }
    try {
        // operations defined by enumerating edges must be defined on every shape
        (void)g.getAdjacencyMatrix();
        if constexpr (IsDirected<G>::value) {
            (void)g.getInDegrees();
            (void)g.getOutDegrees();
        } else {
            (void)g.getDegrees();
        }
        // the writers accept the labelled view of these classes
        std::string tp = tmpFile(R, ".txt");
        if constexpr (IsMulti<G>::value) {
            std::function<std::string(const EdgeMultiplicity &)> ts = [](const EdgeMultiplicity &m) { return std::to_string(m); };
            io::writeTextEdgeList(g.asLabeledGraph(), tp, ts);
        } else {
            std::function<std::string(const EdgeWeight &)> ts = [](const EdgeWeight &w) { return std::to_string(w); };
            io::writeTextEdgeList(g.asLabeledGraph(), tp, ts);
        }
        ++C.filesWritten;
        FILE *f = fopen(tp.c_str(), "r");
        size_t lines = 0;
        int ch;
        while (f && (ch = fgetc(f)) != EOF)
            if (ch == '\n') ++lines;
        if (f) fclose(f);
        unlink(tp.c_str());
        (void)lines; // the file's contents are C13's business; here the writer only has to be defined
        std::string bp = tmpFile(R, ".bin");
        io::writeBinaryEdgeList(g.asLabeledGraph(), bp);
        ++C.filesWritten;
        unlink(bp.c_str());
        std::ostringstream os;
        os << g;
        R.digest(os.str() + snapshot(g));
        if (s.n > 0) {
            for (int round = 0; round < 3; ++round) {
                VertexIndex i = r.u(s.n), j = r.u(s.n);
                    if (round == 0) i = 0;        // below every vertex that had an edge so far
                    if (round == 1) i = s.n - 1;  // above every vertex that had an edge so far
                    if (r.chance(1, 2)) std::swap(i, j); // named in either orientation
                Edge k = canon(s.directed, i, j);
                if (x.e.count(k)) {
                    if constexpr (IsMulti<G>::value) g.setEdgeMultiplicity(i, j, 0);
                    else g.removeEdge(i, j);
                    x.e.erase(k);
                } else {
                    Expect::Cell c;
                    if constexpr (IsMulti<G>::value) { g.addMultiedge(i, j, 2); c.unit = 2; }
                    else g.addEdge(i, j, 0.75);
                    x.e[k] = c;
                }
                ++C.remutated;
                e = checkIteration(g, x.e.size(), C.iterSteps);
                if (e.empty()) e = checkEnumeration(g, x, C.oc);
                if (!e.empty()) { R.violation(cls + "/edges()-after-mutation/" + obs(e), e + " after changing (" + std::to_string(i) + "," + std::to_string(j) + ") on " + s.str()); return; }
            }
        }
    } catch (std::exception &ex) {
        R.violation(cls + "/writer/threw", std::string("threw ") + ex.what() + " on " + s.str());
    }
}

// multigraph constructors: accumulate multiplicities in container order
template <class G, class Cont> std::string multiCtor(const char *contName, const std::vector<LabeledEdge<EdgeMultiplicity>> &items, bool directed) {
    Cont c(items.begin(), items.end());
    ++C.ctorChecks;
    G g(c);
    unsigned n = 0;
    bool any = false;
    Expect x;
    x.directed = directed;
    for (auto &it : c) {
        any = true;
        n = std::max(n, std::max(std::get<0>(it), std::get<1>(it)) + 1);
    }
    if (!any) n = 0;
    x.n = n;
    G want(n);
    std::map<Edge, size_t> mult;
    for (auto &it : c) {
        want.addMultiedge(std::get<0>(it), std::get<1>(it), std::get<2>(it));
        if (std::get<2>(it)) mult[canon(directed, std::get<0>(it), std::get<1>(it))] += std::get<2>(it);
    }
    for (auto &kv : mult) {
        Expect::Cell cell;
        cell.unit = kv.second;
        x.e[kv.first] = cell;
    }
    std::ostringstream o;
    if (g.getSize() != n) {
        o << "constructor from " << contName << ": size " << g.getSize() << ", expected " << n;
        return o.str();
    }
    std::string e = checkEdgesOnly(g, x, C.oc);
    if (!e.empty()) return std::string("constructor from ") + contName + ": " + e;
    size_t tot = 0;
    for (auto &kv : mult) {
        tot += kv.second;
        if (g.getEdgeMultiplicity(kv.first.first, kv.first.second) != kv.second) return std::string("constructor from ") + contName + ": multiplicity differs from adding one at a time";
    }
    if (g.getTotalEdgeNumber() != tot) return std::string("constructor from ") + contName + ": getTotalEdgeNumber differs";
    if (!eq3(g, want)) return std::string("constructor from ") + contName + ": result != graph built by adding the multiedges one at a time";
    return "";
}

template <class G> void c09(Reporter &R, const std::string &cls, const GraphSpec &s, unsigned variant, uint64_t idx) {
    Rng r = caseRng(R.args.seed, hashStr(cls + "c09"), idx);
    Expect x;
    G g = buildOther<G>(s, variant, r, 23, x);
    ++C.graphs;
    std::string e;
    try {
        if constexpr (IsMulti<G>::value) {
            using T = LabeledEdge<EdgeMultiplicity>;
            std::vector<T> items;
            Rng r2 = caseRng(R.args.seed, hashStr(cls + "c09o"), idx);
            for (auto &ed : insertionOrder(s, variant, r2)) items.push_back(T{ed.first, ed.second, valueOf(canon(s.directed, ed.first, ed.second), 23)});
            if (!items.empty() && r.chance(1, 2)) items.push_back(items[r.u((unsigned)items.size())]); // repeated entry accumulates
            if (!items.empty() && r.chance(1, 4)) std::get<2>(items[r.u((unsigned)items.size())]) = 0;  // a zero-multiplicity entry still counts for the size
            if (!items.empty() && r.chance(1, 3)) {
                // a multiplicity from the upper half of the 32-bit range, on a pair that is named once (so that nothing wraps)
                size_t t = r.u((unsigned)items.size());
                Edge key = canon(s.directed, std::get<0>(items[t]), std::get<1>(items[t]));
                unsigned occurrences = 0;
                for (auto &it : items) occurrences += canon(s.directed, std::get<0>(it), std::get<1>(it)) == key;
                if (occurrences == 1) {
                    static const EdgeMultiplicity big[] = {1u << 31, 0xffffffffu, (1u << 31) + 5, 0x7fffffffu};
                    std::get<2>(items[t]) = big[r.u(4)];
                    ++C.bigMultCtor;
                }
            }
            if ((e = multiCtor<G, std::vector<T>>("std::vector", items, s.directed)) == "" && (e = multiCtor<G, std::list<T>>("std::list", items, s.directed)) == "" &&
                (e = multiCtor<G, std::deque<T>>("std::deque", items, s.directed)) == "" && (e = multiCtor<G, std::forward_list<T>>("std::forward_list", items, s.directed)) == "" &&
                (e = multiCtor<G, std::set<T>>("std::set", items, s.directed)) == "")
                e = multiCtor<G, std::multiset<T>>("std::multiset", items, s.directed);
            if (!e.empty()) { R.violation(cls + "/edge-list-constructor/" + obs(e.substr(e.find(": ") + 2)), e + " on " + s.str()); return; }
        }
        ++C.copies;
        G c(g);
        G a(0);
        a = g;
        std::string before = snapshot(g);
        if (!eq3(c, g) || !eq3(a, g)) e = "copy: copy-constructed / assigned graph != source";
        if (e.empty()) {
            c.resize(s.n + 1);
            a.clearEdges();
            if (s.n) {
                if constexpr (IsMulti<G>::value) a.addMultiedge(0, s.n - 1, 9);
                else a.addEdge(0, s.n - 1, 99.5);
            } else a.resize(2);
            if (snapshot(g) != before) e = "copy: source changed when its copy was mutated";
            else if (eq3(c, g) || eq3(a, g)) e = "copy: mutated copy still == source";
        }
        if (e.empty()) e = checkEdgesOnly(g, x, C.oc);
        if (e.empty()) {
            // assignment onto graphs that already hold something else (from the source, from a temporary), construction from a temporary
            G t1(3);
            if constexpr (IsMulti<G>::value) t1.addMultiedge(0, 1, 4);
            else t1.addEdge(0, 1, 7.5);
            G t2(t1);
            t1 = g;
            t2 = G(g);
            G scratch(g);
            G t3(std::move(scratch));
            ++C.assignments;
            const G *all[] = {&t1, &t2, &t3};
            const char *how[] = {"assigned over a graph with other edges", "assigned from a temporary over a graph with other edges", "constructed from a temporary"};
            for (int k = 0; k < 3 && e.empty(); ++k) {
                if (!eq3(*all[k], g)) e = std::string("copy: graph ") + how[k] + " != source";
                if (e.empty()) e = checkEdgesOnly(*all[k], x, C.oc);
                if (e.empty()) {
                    if constexpr (IsMulti<G>::value) { if (all[k]->getTotalEdgeNumber() != g.getTotalEdgeNumber()) e = "getTotalEdgeNumber differs from the source's"; }
                    else { if (all[k]->getTotalWeight() != g.getTotalWeight()) e = "getTotalWeight differs from the source's"; }
                }
                if (!e.empty() && e.find("copy:") != 0) e = std::string("copy: graph ") + how[k] + ": " + e;
            }
        }
        if (!e.empty()) { R.violation(cls + "/copy/" + obs(e), e + " on " + s.str()); return; }
    } catch (std::exception &ex) {
        R.violation(cls + "/c09/threw", std::string("threw ") + ex.what() + " on " + s.str());
    }
}

void flush(Reporter &R) {
    C.oc.flush(R);
    R.count("graphs_built", C.graphs);
    R.count("enumerate_mutate_enumerate_rounds", C.remutated);
    R.count("edge_iteration_steps", C.iterSteps);
    R.count("constructor_checks", C.ctorChecks);
    R.count("constructor_lists_with_a_multiplicity_of_2_to_the_31_or_more", C.bigMultCtor);
    R.count("copy_checks", C.copies);
    R.count("assignments_over_a_non_empty_graph_and_from_temporaries", C.assignments);
    R.count("files_written", C.filesWritten);
    R.count("graphs_without_edges", C.emptyGraphs);
    R.count("graphs_with_zero_vertices", C.zeroVertex);
    C = Counters();
}

template <class G> void reg(const char *cls, bool directed, bool flusher) {
    std::string c = cls;
    static RegisterShape rs({c, directed, [c, flusher](Reporter &R, const std::string &prop, const GraphSpec &s, unsigned variant, uint64_t idx) {
                                 if (idx == (uint64_t)-1) {
                                     if (flusher) flush(R);
                                     return;
                                 }
                                 if (prop == "C08") c08<G>(R, c, s, variant, idx);
                                 else if (prop == "C09") c09<G>(R, c, s, variant, idx);
                             }});
}
struct Init {
    Init() {
        reg<DirectedMultigraph>("DirectedMultigraph", true, true);
        reg<UndirectedMultigraph>("UndirectedMultigraph", false, false);
        reg<DirectedWeightedGraph>("DirectedWeightedGraph", true, false);
        reg<UndirectedWeightedGraph>("UndirectedWeightedGraph", false, false);
    }
} init;
} // namespace
} // namespace vf
