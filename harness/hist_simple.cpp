// History monitor for LabeledDirectedGraph<L> / LabeledUndirectedGraph<L>.
// Compiled once per label kind (-DVK_LABEL=0..7). Serves C01, C02, C03, C06,
// C16 (simple and labelled classes).
#include "hist.hpp"
#include "snapshot.hpp"

#ifndef VK_LABEL
#define VK_LABEL 1
#endif

namespace vf {
namespace {

#if VK_LABEL == 0
using LabelT = BaseGraph::NoLabel;
#elif VK_LABEL == 1
using LabelT = int;
#elif VK_LABEL == 2
using LabelT = unsigned;
#elif VK_LABEL == 3
using LabelT = double;
#elif VK_LABEL == 4
using LabelT = char;
#elif VK_LABEL == 5
using LabelT = std::string;
#elif VK_LABEL == 7
using LabelT = EmptyLabel;
#else
using LabelT = UserLabel;
#endif

enum Kind { ADD_L, ADD_D, ADDREC_L, ADDREC_D, REMOVE, LOOPS, VERTEX, CLEAR, RESIZE, SETLABEL, DEDUP, KIND_COUNT };
const char *kindName(int k) {
    static const char *n[] = {"addEdge(label)", "addEdge", "addReciprocalEdge(label)", "addReciprocalEdge", "removeEdge",
                              "removeSelfLoops", "removeVertexFromEdgeList", "clearEdges", "resize", "setEdgeLabel", "removeDuplicateEdges"};
    return n[k];
}

struct Op {
    int kind = 0;
    VertexIndex i = 0, j = 0;
    uint64_t stamp = 0; // 0 = default-constructed label
    bool force = false;
    unsigned k = 0;
    bool rejected = false; // out-of-range index or shrinking resize: must throw, denotes no change
    std::string str() const {
        std::ostringstream o;
        if (rejected) o << "rejected: ";
        if (rejected && kind == RESIZE) {
            o << "resize(" << k << ")";
            return o.str();
        }
        switch (kind) {
        case ADD_L: o << "addEdge(" << i << "," << j << ",label#" << stamp << (force ? ",force=true)" : ")"); break;
        case ADD_D: o << "addEdge(" << i << "," << j << (force ? ",force=true)" : ")"); break;
        case ADDREC_L: o << "addReciprocalEdge(" << i << "," << j << ",label#" << stamp << ")"; break;
        case ADDREC_D: o << "addReciprocalEdge(" << i << "," << j << ")"; break;
        case REMOVE: o << "removeEdge(" << i << "," << j << ")"; break;
        case LOOPS: o << "removeSelfLoops()"; break;
        case VERTEX: o << "removeVertexFromEdgeList(" << i << ")"; break;
        case CLEAR: o << "clearEdges()"; break;
        case RESIZE: o << "resize(size+" << k << ")"; break;
        case SETLABEL: o << "setEdgeLabel(" << i << "," << j << ",label#" << stamp << (force ? ",force=true)" : ")"); break;
        case DEDUP: o << "removeDuplicateEdges()"; break;
        }
        return o.str();
    }
};

template <class L> L labelOf(uint64_t stamp) { return stamp ? LT<L>::make(stamp) : L(); }

template <class L> struct SModel {
    bool directed = true;
    unsigned n = 0;
    struct Cell {
        unsigned copies = 1;
        uint64_t stamp = 0;
    };
    std::map<Edge, Cell> e;
    Edge key(VertexIndex i, VertexIndex j) const { return canon(directed, i, j); }
    bool has(VertexIndex i, VertexIndex j) const { return e.count(key(i, j)) != 0; }
    Expect expect() const {
        Expect x;
        x.directed = directed;
        x.n = n;
        for (auto &kv : e) {
            Expect::Cell c;
            c.copies = kv.second.copies;
            x.e[kv.first] = c;
        }
        return x;
    }
    uint64_t hash() const {
        uint64_t h = mix64(n, directed);
        for (auto &kv : e) h = mix64(h, mix64(((uint64_t)kv.first.first << 32) | kv.first.second, kv.second.stamp * 31 + kv.second.copies));
        return h;
    }
    std::string str() const {
        std::ostringstream o;
        o << "n=" << n << " {";
        for (auto &kv : e) {
            o << "(" << kv.first.first << "," << kv.first.second << ")";
            if (kv.second.copies != 1) o << "x" << kv.second.copies;
            o << ":#" << kv.second.stamp << " ";
        }
        o << "}";
        return o.str();
    }
};

template <class G, class L> struct Subject {
    static constexpr bool directed = IsDirected<G>::value;
    G g;
    SModel<L> m;
    std::vector<Op> hist;
    std::map<Edge, std::pair<int, uint64_t>> ghosts; // absent pair -> (how it went, last stamp)
    std::set<Edge> recreated;
    bool lastWasNoop = false;
    bool notRejected = false; // a call that had to be rejected was not (C07's verdict): the history is abandoned
    unsigned removalsOfLabelled = 0;

    explicit Subject(unsigned n0) : g(n0) {
        m.directed = directed;
        m.n = n0;
    }

    void gone(Edge k, int how) {
        auto it = m.e.find(k);
        if (it == m.e.end()) return;
        ghosts[k] = {how, it->second.stamp};
        recreated.erase(k);
        m.e.erase(it);
        ++removalsOfLabelled;
    }
    void modelAdd(VertexIndex i, VertexIndex j, uint64_t stamp, bool force) {
        Edge k = m.key(i, j);
        auto it = m.e.find(k);
        if (it == m.e.end()) {
            typename SModel<L>::Cell c;
            c.stamp = stamp;
            m.e[k] = c;
            if (ghosts.erase(k)) recreated.insert(k);
        } else if (force) {
            it->second.copies++;
            it->second.stamp = stamp; // generator keeps stamp equal for duplicates
        }
    }
    // whether, according to the model, the op leaves the graph as it is
    bool isNoop(const Op &op) const {
        if (op.rejected) return true;
        switch (op.kind) {
        case ADD_L:
        case ADD_D: return !op.force && m.has(op.i, op.j);
        case ADDREC_L:
        case ADDREC_D: return m.has(op.i, op.j) && m.has(op.j, op.i);
        case REMOVE: return !m.has(op.i, op.j);
        case LOOPS:
            for (auto &kv : m.e)
                if (kv.first.first == kv.first.second) return false;
            return true;
        case VERTEX:
            for (auto &kv : m.e)
                if (kv.first.first == op.i || kv.first.second == op.i) return false;
            return true;
        case CLEAR: return m.e.empty();
        case RESIZE: return op.k == 0;
        case SETLABEL: return !m.has(op.i, op.j);
        case DEDUP:
            for (auto &kv : m.e)
                if (kv.second.copies > 1) return false;
            return true;
        }
        return false;
    }

    // Applies op to the real graph and the model. Returns "" or a description
    // of an immediate failure (unexpected / missing exception).
    std::string apply(const Op &op) {
        hist.push_back(op);
        lastWasNoop = isNoop(op);
        std::string what;
        // whether setEdgeLabel must reject is decided by what the graph itself says is an edge (if that disagrees with the
        // history, it is C01/C02's verdict, reported by the structural observers)
        bool realHas = true;
        if (op.kind == SETLABEL && !op.rejected) realHas = g.hasEdge(op.i, op.j);
        Exc ex = classify([&] {
            switch (op.kind) {
            case ADD_L: g.addEdge(op.i, op.j, labelOf<L>(op.stamp), op.force); break;
            case ADD_D:
                if (op.force) g.addEdge(op.i, op.j, true);
                else g.addEdge(op.i, op.j);
                break;
            case ADDREC_L:
                if constexpr (directed) g.addReciprocalEdge(op.i, op.j, labelOf<L>(op.stamp));
                break;
            case ADDREC_D:
                if constexpr (directed) g.addReciprocalEdge(op.i, op.j);
                break;
            case REMOVE: g.removeEdge(op.i, op.j); break;
            case LOOPS: g.removeSelfLoops(); break;
            case VERTEX: g.removeVertexFromEdgeList(op.i); break;
            case CLEAR: g.clearEdges(); break;
            case RESIZE: g.resize(op.rejected ? op.k : g.getSize() + op.k); break;
            case SETLABEL:
                if (op.force) g.setEdgeLabel(op.i, op.j, labelOf<L>(op.stamp), true); // only generated on present edges (forced on an absent one is outside C03)
                else g.setEdgeLabel(op.i, op.j, labelOf<L>(op.stamp));
                break;
            case DEDUP: g.removeDuplicateEdges(); break;
            }
        }, &what);
        if (op.rejected) {
            if (ex != (op.kind == RESIZE ? EX_INVALID_ARGUMENT : EX_OUT_OF_RANGE)) notRejected = true;
            return "";
        }
        bool expectThrow = (op.kind == SETLABEL && !realHas);
        if (expectThrow) {
            if (ex != EX_INVALID_ARGUMENT)
                return std::string("setEdgeLabel on a missing edge: expected std::invalid_argument, got ") + excName(ex);
            return "";
        }
        if (ex != EX_NONE) return std::string("valid call threw ") + excName(ex) + " (" + what + ")";
        // model
        switch (op.kind) {
        case ADD_L: modelAdd(op.i, op.j, op.stamp, op.force); break;
        case ADD_D: modelAdd(op.i, op.j, 0, op.force); break;
        case ADDREC_L:
            modelAdd(op.i, op.j, op.stamp, false);
            modelAdd(op.j, op.i, op.stamp, false);
            break;
        case ADDREC_D:
            modelAdd(op.i, op.j, 0, false);
            modelAdd(op.j, op.i, 0, false);
            break;
        case REMOVE: gone(m.key(op.i, op.j), G_REMOVE); break;
        case LOOPS: {
            std::vector<Edge> v;
            for (auto &kv : m.e)
                if (kv.first.first == kv.first.second) v.push_back(kv.first);
            for (auto &k : v) gone(k, G_LOOPS);
            break;
        }
        case VERTEX: {
            std::vector<std::pair<Edge, int>> v;
            for (auto &kv : m.e)
                if (kv.first.first == op.i) v.push_back({kv.first, G_VERTEX_SRC});
                else if (kv.first.second == op.i) v.push_back({kv.first, G_VERTEX_DST});
            for (auto &k : v) gone(k.first, k.second);
            break;
        }
        case CLEAR: {
            std::vector<Edge> v;
            for (auto &kv : m.e) v.push_back(kv.first);
            for (auto &k : v) gone(k, G_CLEAR);
            break;
        }
        case RESIZE: m.n += op.k; break;
        case SETLABEL:
            if (m.has(op.i, op.j)) m.e[m.key(op.i, op.j)].stamp = op.stamp;
            break;
        case DEDUP:
            for (auto &kv : m.e) kv.second.copies = 1;
            break;
        }
        return "";
    }

    std::string histJson() const {
        std::string o = "[";
        for (size_t i = 0; i < hist.size(); ++i) o += (i ? "," : "") + q(hist[i].str());
        return o + "]";
    }
};

struct LabelCounters {
    uint64_t present = 0, absent = 0, recreated = 0, hasEdgeLabel = 0, structuralDisagreementSkipped = 0;
    uint64_t after[G_COUNT] = {0};
};

// label observers; returns "" or first disagreement
template <class G, class L> std::string checkLabels(const Subject<G, L> &s, LabelCounters &lc) {
    if constexpr (!LT<L>::labelled) {
        return "";
    } else {
        std::ostringstream o;
        unsigned n = s.m.n;
        for (VertexIndex i = 0; i < n; ++i)
            for (VertexIndex j = 0; j < n; ++j) {
                Edge k = s.m.key(i, j);
                auto it = s.m.e.find(k);
                // "currently an edge" is what the graph itself says (hasEdge): whether the right pairs are edges is C01/C02's
                // verdict; here only the label has to live exactly as long as its edge and hold the last value set
                bool real = s.g.hasEdge(i, j);
                if (real != (it != s.m.e.end())) {
                    ++lc.structuralDisagreementSkipped;
                    if (real) continue; // an edge the history does not account for: its label is nobody's to predict
                }
                if (real) {
                    ++lc.present;
                    if (s.recreated.count(k)) ++lc.recreated;
                    L want = labelOf<L>(it->second.stamp);
                    L got1, got2;
                    std::string what;
                    Exc ex = classify([&] {
                        got1 = s.g.getEdgeLabel(i, j);
                        got2 = s.g.getEdgeLabel(i, j, false);
                    }, &what);
                    if (ex != EX_NONE) {
                        o << "getEdgeLabel(" << i << "," << j << ") on a present edge threw " << excName(ex) << " (" << what << ")";
                        return o.str();
                    }
                    if (!(got1 == want) || !(got2 == want)) {
                        o << "getEdgeLabel(" << i << "," << j << "): expected " << LT<L>::str(want) << " got " << LT<L>::str(got1) << " / nothrow " << LT<L>::str(got2);
                        return o.str();
                    }
                    ++lc.hasEdgeLabel;
                    L other = LT<L>::make(it->second.stamp + 1);
                    if (other == want) other = LT<L>::make(it->second.stamp + 2);
                    if (!s.g.hasEdge(i, j, want)) {
                        o << "hasEdge(" << i << "," << j << ",its label): expected true";
                        return o.str();
                    }
                    if (!LT<L>::singleValued && s.g.hasEdge(i, j, other)) {
                        o << "hasEdge(" << i << "," << j << ",a different label): expected false";
                        return o.str();
                    }
                    if (!LT<L>::singleValued && it->second.stamp != 0 && s.g.hasEdge(i, j, L())) {
                        o << "hasEdge(" << i << "," << j << ",L()): expected false";
                        return o.str();
                    }
                } else {
                    auto gh = s.ghosts.find(k);
                    // on graphs of more than 12 vertices the never-an-edge pairs are sampled (each read throws): every pair whose
                    // edge disappeared is read, plus about 150 of the others per check
                    if (n > 12 && gh == s.ghosts.end() && mix64(((uint64_t)i << 32) | j, s.hist.size()) % ((uint64_t)n * n) >= 150) continue;
                    ++lc.absent;
                    int how = gh == s.ghosts.end() ? G_NONE : gh->second.first;
                    ++lc.after[how];
                    std::string what;
                    L got{};
                    Exc ex = classify([&] { got = s.g.getEdgeLabel(i, j); }, &what);
                    if (ex != EX_INVALID_ARGUMENT) {
                        o << "getEdgeLabel(" << i << "," << j << ") on a pair that is not an edge (gone by " << goneName(how)
                          << "): expected std::invalid_argument, got " << excName(ex);
                        if (ex == EX_NONE) o << " and value " << LT<L>::str(got);
                        return o.str();
                    }
                    ex = classify([&] { got = s.g.getEdgeLabel(i, j, false); }, &what);
                    if (ex != EX_NONE || !(got == L())) {
                        o << "getEdgeLabel(" << i << "," << j << ",false) on a pair that is not an edge (gone by " << goneName(how)
                          << "): expected L(), got " << (ex == EX_NONE ? LT<L>::str(got) : excName(ex));
                        return o.str();
                    }
                    L stale = gh == s.ghosts.end() ? LT<L>::make(12345) : labelOf<L>(gh->second.second);
                    ++lc.hasEdgeLabel;
                    if (s.g.hasEdge(i, j, stale) || s.g.hasEdge(i, j, L())) {
                        o << "hasEdge(" << i << "," << j << ",label) on a pair that is not an edge: expected false";
                        return o.str();
                    }
                }
            }
        return "";
    }
}

template <class G, class L> struct Monitor {
    static constexpr bool directed = IsDirected<G>::value;
    Reporter &R;
    const HistConfig &cfg;
    std::string cls;
    ObsCounters oc;
    LabelCounters lc;
    uint64_t callsByKind[KIND_COUNT] = {0};
    uint64_t rejectedCalls = 0, rejectedThenGrown = 0, abandonedNotRejected = 0, scalePairs = 0, longHistories = 0, bursts = 0, noopChecks = 0, rejectedSetLabel = 0, calls = 0, scaleHistories = 0, maxDegreeSeen = 0, maxEdgesSeen = 0;
    uint64_t transitions[KIND_COUNT][KIND_COUNT] = {{0}};

    Monitor(Reporter &R, const HistConfig &cfg, std::string cls) : R(R), cfg(cfg), cls(std::move(cls)) {}

    Op gen(Rng &r, Subject<G, L> &s, PairPicker &pp, unsigned style, unsigned step, unsigned len, uint64_t &stampCtr, unsigned maxN) {
        Op op;
        unsigned n = s.m.n;
        // phase-dependent weights
        unsigned wAdd = 40, wRemove = 18, wLoops = 4, wVertex = 6, wClear = 2, wResize = 4, wSet = LT<L>::labelled ? 12 : 3, wRec = directed ? 8 : 0, wDedup = 0;
        if (style == 1) { // churn: add-heavy then remove-heavy
            bool addPhase = (step * 4 / (len + 1)) % 2 == 0;
            if (addPhase) { wAdd = 60; wRemove = 6; wVertex = 2; wClear = 0; }
            else { wAdd = 10; wRemove = 40; wVertex = 12; wLoops = 8; wClear = 1; }
        } else if (style == 2) { // re-add after bulk removal
            unsigned ph = step % 16;
            if (ph < 9) { wAdd = 70; wRemove = 4; wVertex = 0; wClear = 0; wLoops = 0; }
            else if (ph < 11) { wAdd = 0; wRemove = 5; wVertex = 30; wClear = 20; wLoops = 20; wSet = 0; wRec = 0; }
            else { wAdd = 70; wRemove = 2; wVertex = 0; wClear = 0; wLoops = 0; }
        }
        if (style == 4) { wAdd = 40; wRemove = 34; wLoops = 3; wVertex = 4; wClear = 0; wResize = 1; wSet = LT<L>::labelled ? 10 : 2; wRec = directed ? 6 : 0; }
        if (style == 3) { // scale histories: grow a hub, keep churning its edges
            wAdd = 52; wRemove = 26; wLoops = 1; wVertex = 1; wClear = 0; wResize = 1; wSet = LT<L>::labelled ? 8 : 2; wRec = directed ? 4 : 0;
        }
        if (cfg.force) {
            // C16: forced and unforced insertions, removeEdge, removeDuplicateEdges only
            wAdd = 60; wRemove = 12; wDedup = 8; wLoops = 0; wVertex = 0; wClear = 0; wSet = 0; wRec = 0; wResize = 2;
        }
        if (cfg.prop == "C02" && !cfg.force) wDedup = 2; // "any public mutating call": on a duplicate-free graph removeDuplicateEdges denotes no change
        if (n >= maxN) wResize = 0;
        if (n == 0) { wAdd = wRemove = wVertex = wSet = wRec = 0; wResize = 60; }
        unsigned tot = wAdd + wRemove + wLoops + wVertex + wClear + wResize + wSet + wRec + wDedup;
        unsigned x = r.u(tot);
        auto take = [&](unsigned w) { if (x < w) return true; x -= w; return false; };
        if (take(wAdd)) {
            Edge e = pp.pick(r, n, s.m.e, directed, -1);
            op.i = e.first; op.j = e.second;
            bool present = s.m.has(e.first, e.second);
            op.force = cfg.force && r.chance(1, 2);
            if (cfg.force && op.force && present) {
                // same label for every copy of a pair (C16's proviso)
                uint64_t st = s.m.e[s.m.key(e.first, e.second)].stamp;
                op.kind = st ? ADD_L : ADD_D;
                op.stamp = st;
            } else if (LT<L>::labelled ? r.chance(5, 6) : r.chance(1, 3)) {
                op.kind = ADD_L;
                op.stamp = ++stampCtr;
            } else {
                op.kind = ADD_D;
            }
        } else if (take(wRemove)) {
            op.kind = REMOVE;
            Edge e = pp.pick(r, n, s.m.e, directed, 1);
            op.i = e.first; op.j = e.second;
        } else if (take(wLoops)) {
            op.kind = LOOPS;
        } else if (take(wVertex)) {
            op.kind = VERTEX;
            Edge e = pp.pick(r, n, s.m.e, directed, 1);
            op.i = r.chance(1, 2) ? e.first : e.second;
        } else if (take(wClear)) {
            op.kind = CLEAR;
        } else if (take(wResize)) {
            op.kind = RESIZE;
            op.k = r.u(3);
            if (n == 0 && op.k == 0 && r.chance(3, 4)) op.k = 1 + r.u(3);
            if (n + op.k > maxN) op.k = maxN - n;
        } else if (take(wSet)) {
            op.kind = SETLABEL;
            Edge e = pp.pick(r, n, s.m.e, directed, r.chance(3, 4) ? 1 : 0);
            op.i = e.first; op.j = e.second;
            op.stamp = ++stampCtr;
            op.force = s.m.has(op.i, op.j) && r.chance(1, 4);
        } else if (take(wRec)) {
            Edge e = pp.pick(r, n, s.m.e, directed, -1);
            op.i = e.first; op.j = e.second;
            if (LT<L>::labelled ? r.chance(5, 6) : r.chance(1, 3)) { op.kind = ADDREC_L; op.stamp = ++stampCtr; }
            else op.kind = ADDREC_D;
        } else {
            op.kind = DEDUP;
        }
        return op;
    }

    // a call the library must reject (see pickRejected), drawn from the calls the property lists
    Op genRejected(Rng &r, const Subject<G, L> &s, uint64_t &stampCtr, unsigned &growBy) {
        Op op;
        op.rejected = true;
        RejectedArgs x = pickRejected(r, s.m.n);
        growBy = x.growBy;
        if (x.shrink) {
            op.kind = RESIZE;
            op.k = x.newSize;
            return op;
        }
        op.i = x.a;
        op.j = x.b;
        unsigned roll = r.u(cfg.force ? 6 : (directed ? 12 : 10));
        if (roll < 3) { op.kind = ADD_L; op.stamp = ++stampCtr; }
        else if (roll < 5) op.kind = ADD_D;
        else if (roll < 6) op.kind = REMOVE;
        else if (roll < 7) op.kind = REMOVE;
        else if (roll < 8) { op.kind = VERTEX; if (op.i < s.m.n) op.i = op.j; }
        else if (roll < 10) { op.kind = SETLABEL; op.stamp = ++stampCtr; op.force = !cfg.obsLabel && r.chance(1, 3); }
        else if (roll < 11) { op.kind = ADDREC_L; op.stamp = ++stampCtr; }
        else op.kind = ADDREC_D;
        if (cfg.force && (op.kind == ADD_L || op.kind == ADD_D)) op.force = r.chance(2, 3);
        return op;
    }

    void flush() {
        oc.flush(R);
        R.count("calls_total", calls);
        for (int k = 0; k < KIND_COUNT; ++k)
            if (callsByKind[k]) R.count(std::string("calls_") + kindName(k), callsByKind[k]);
        R.count("noop_exactness_checks", noopChecks);
        R.count("rejected_calls_inside_histories", rejectedCalls);
        R.count("rejected_calls_followed_by_resize_making_the_index_valid", rejectedThenGrown);
        R.count("histories_abandoned_call_not_rejected", abandonedNotRejected);
        rejectedCalls = rejectedThenGrown = abandonedNotRejected = 0;
        R.count("long_histories_2000_to_4500_calls", longHistories);
        longHistories = 0;
        R.count("scale_pairs_with_four_hubs", scalePairs);
        scalePairs = 0;
        R.count("scale_histories_12_to_70_vertices", scaleHistories);
        R.count("bursts_of_16_to_40_forced_copies_of_one_pair", bursts);
        bursts = 0;
        { uint64_t &m1 = R.counter("largest_neighbour_list_seen_max"); m1 = std::max(m1, maxDegreeSeen); }
        { uint64_t &m2 = R.counter("most_edges_in_one_graph_max"); m2 = std::max(m2, maxEdgesSeen); }
        scaleHistories = 0;
        R.count("rejected_setEdgeLabel_on_missing_edge", rejectedSetLabel);
        R.count("label_reads_present_edge", lc.present);
        R.count("pairs_skipped_graph_and_model_disagree_on_edge_existence", lc.structuralDisagreementSkipped);
        R.count("label_reads_absent_pair", lc.absent);
        R.count("label_reads_after_recreation", lc.recreated);
        R.count("hasEdge_with_label_checks", lc.hasEdgeLabel);
        for (int g = 1; g < G_COUNT; ++g)
            if (lc.after[g]) R.count(std::string("label_reads_after_") + goneName(g), lc.after[g]);
        uint64_t distinctTransitions = 0;
        for (int a = 0; a < KIND_COUNT; ++a)
            for (int b = 0; b < KIND_COUNT; ++b)
                if (transitions[a][b]) {
                    ++distinctTransitions;
                    transitions[a][b] = 0;
                }
        R.count("op_to_op_transitions_covered_max", 0);
        uint64_t &mx = R.counter("op_to_op_transitions_covered_max");
        mx = std::max(mx, distinctTransitions);
        calls = noopChecks = rejectedSetLabel = 0;
        lc = LabelCounters();
        for (auto &c : callsByKind) c = 0;
    }

    // full check after a call; returns "" or "<observer>: ..." text
    std::string checkAll(const Subject<G, L> &s, bool structDegrees) {
        if (cfg.obsStruct) {
            std::string e = checkStructure(s.g, s.m.expect(), oc, structDegrees);
            if (!e.empty()) return e;
        }
        if (cfg.obsLabel) {
            std::string e = checkLabels(s, lc);
            if (!e.empty()) return e;
        }
        return "";
    }

    static std::string observerOf(const std::string &msg) {
        size_t p = msg.find_first_of(":(");
        return p == std::string::npos ? msg : msg.substr(0, p);
    }

    // one history with per-call checks
    void runHistory(uint64_t sub) {
        Rng r = caseRng(R.args.seed, hashStr(cls + cfg.prop), sub);
        static const unsigned startN[] = {0, 1, 2, 3, 5};
        unsigned style = sub % 3;
        unsigned n0 = startN[(sub / 3) % 5];
        unsigned len = 8 + r.u(cfg.maxLen - 7);
        unsigned maxN = cfg.maxN, checkEvery = 1;
        PairPicker pp;
        bool scale = cfg.scaleEvery && sub % cfg.scaleEvery == 7;
        if (scale) {
            static const unsigned bigN[] = {12, 24, 40, 70};
            n0 = bigN[(sub / cfg.scaleEvery) % 4];
            maxN = n0 + 2;
            len = 250 + r.u(n0 * 7);
            checkEvery = 8;
            style = 3;
            pp.hub = (int)r.u(n0);
            ++scaleHistories;
        } else if (cfg.scaleEvery && sub % (cfg.scaleEvery * 4) == 11) {
            // a long life of one small object: more than a thousand calls, hundreds of removals
            len = 2000 + r.u(2500);
            checkEvery = 16;
            n0 = 3 + r.u(4);
            style = 4; // steady churn without clearEdges: hundreds of edges come and go on one object
            ++longHistories;
        }
        Subject<G, L> s(n0);
        uint64_t stampCtr = (sub % 1000) * 1000;
        Op prevOp, burstOp;
        bool havePrev = false;
        unsigned burstLeft = 0, pendingGrow = 0;
        // every third history has calls in it that the library must reject
        bool withRejected = sub % 3 == 1;
        R.describeCase = [&] {
            return "{\"class\": " + q(cls) + ", \"start_size\": " + std::to_string(n0) + ", \"history\": " + s.histJson() +
                   ", \"model_after\": " + q(s.m.str()) + "}";
        };
        std::string e0 = checkAll(s, true);
        if (!e0.empty()) {
            R.violation(cls + "/constructor/" + observerOf(e0), e0);
            return;
        }
        int prevKind = -1;
        uint64_t hh = n0;
        for (unsigned step = 0; step < len; ++step) {
            Op op = gen(r, s, pp, style, step, len, stampCtr, maxN);
            // the same call twice in a row, and labels that compare equal although they were set separately
            if (havePrev && !cfg.force && r.chance(1, 12)) op = prevOp;
            else if ((op.kind == ADD_L || op.kind == SETLABEL || op.kind == ADDREC_L) && stampCtr > 3 && r.chance(1, 10) && !(cfg.force && op.force)) op.stamp = stampCtr - 1 - r.u(3);
            // C16: now and then a burst of 16-40 forced copies of one pair (the label of an existing pair is kept)
            if (cfg.force && burstLeft == 0 && (op.kind == ADD_L || op.kind == ADD_D) && op.force && r.chance(1, 25)) {
                burstLeft = 16 + r.u(25);
                burstOp = op;
                ++bursts;
            }
            if (burstLeft > 0) {
                op = burstOp;
                if (s.m.has(op.i, op.j)) {
                    uint64_t st = s.m.e[s.m.key(op.i, op.j)].stamp;
                    op.kind = st ? ADD_L : ADD_D;
                    op.stamp = st;
                }
                --burstLeft;
            }
            if (withRejected && burstLeft == 0) {
                if (pendingGrow) {
                    op = Op();
                    op.kind = RESIZE;
                    op.k = pendingGrow;
                    pendingGrow = 0;
                    ++rejectedThenGrown;
                } else if (r.chance(1, checkEvery > 1 ? 40 : 9)) {
                    unsigned growBy = 0;
                    op = genRejected(r, s, stampCtr, growBy);
                    ++rejectedCalls;
                    if (growBy && s.m.n + growBy <= maxN + 4 && r.chance(2, 3)) pendingGrow = growBy;
                }
            }
            if (!op.rejected) {
                prevOp = op;
                havePrev = true;
            }
            std::vector<std::vector<VertexIndex>> before;
            bool noop = s.isNoop(op);
            // "changes nothing" is stated for re-adding an existing edge, removing an absent one and (C07) rejected calls;
            // other calls that happen to have nothing to do are only held to the model, not to list order
            bool exactNoop = noop && !op.rejected && cfg.obsStruct && (op.kind == ADD_L || op.kind == ADD_D || op.kind == REMOVE || op.kind == SETLABEL);
            if (exactNoop) before = orderedLists(s.g);
            std::string err = s.apply(op);
            ++calls;
            ++callsByKind[op.kind];
            if (prevKind >= 0) transitions[prevKind][op.kind]++;
            prevKind = op.kind;
            if (op.kind == SETLABEL && noop && !op.rejected) ++rejectedSetLabel;
            if (s.notRejected) {
                ++abandonedNotRejected;
                return;
            }
            if (!err.empty()) {
                R.violation(cls + "/" + kindName(op.kind) + "/exception", err);
                return;
            }
            if (exactNoop) {
                ++noopChecks;
                if (orderedLists(s.g) != before) {
                    R.violation(cls + "/" + kindName(op.kind) + "/no-op-changed-neighbour-lists",
                                "a call that must change nothing (" + op.str() + ") altered the neighbour lists");
                    return;
                }
            }
            bool dup = false;
            for (auto &kv : s.m.e)
                if (kv.second.copies > 1) dup = true;
            if (!cfg.obsStruct) {
                // label-only mode (C03): once the graph's own idea of which pairs are edges departs from the history, the
                // execution is C01/C02's to judge; nothing further is claimed about labels on it
                bool diverged = false;
                for (VertexIndex a = 0; a < s.m.n && !diverged; ++a)
                    for (VertexIndex b = 0; b < s.m.n && !diverged; ++b)
                        if (s.g.hasEdge(a, b) && !s.m.has(a, b)) diverged = true; // an edge the history does not account for: its label is nobody's to predict
                if (diverged || s.g.getSize() != s.m.n) {
                    R.count("histories_abandoned_edge_set_diverged_from_history");
                    return;
                }
            }
            if (checkEvery > 1 && step % checkEvery != 0 && step + 1 != len) continue;
            std::string e = checkAll(s, !dup);
            if (!e.empty()) {
                R.violation(cls + "/" + kindName(op.kind) + "/" + observerOf(e), "after " + op.str() + ": " + e);
                return;
            }
            if (scale) {
                for (VertexIndex v = 0; v < s.m.n; ++v) maxDegreeSeen = std::max<uint64_t>(maxDegreeSeen, s.g.getOutNeighbours(v).size());
                maxEdgesSeen = std::max<uint64_t>(maxEdgesSeen, s.m.e.size());
            }
            uint64_t sh = s.m.hash();
            R.states.insert(sh);
            hh = mix64(hh, sh);
            if (cfg.force && op.kind == DEDUP) checkDedupEqualsUnforced(s);
        }
        R.digest(snapshot(s.g));
        if (s.hist.size() >= 8) R.distinct.insert(hh);
        if (sub < 3 * 5 && R.samples.size() < 4)
            R.sample("{\"class\": " + q(cls) + ", \"start_size\": " + std::to_string(n0) + ", \"history\": " + s.histJson() + "}");
    }

    // C16: after removeDuplicateEdges the graph equals the one built from the
    // same calls without force.
    void checkDedupEqualsUnforced(const Subject<G, L> &s) {
        Subject<G, L> u(0);
        // replay with force off; resize first op is implicit in start size
        unsigned n0 = s.m.n;
        for (auto &op : s.hist)
            if (op.kind == RESIZE && !op.rejected) n0 -= op.k;
        u.g.resize(n0);
        u.m.n = n0;
        for (auto op : s.hist) {
            if (op.kind == DEDUP) continue;
            op.force = false;
            u.apply(op);
        }
        R.count("dedup_vs_unforced_replay_comparisons");
        bool eq = (s.g == u.g) && (u.g == s.g) && !(s.g != u.g);
        if (!eq)
            R.violation(cls + "/removeDuplicateEdges/operator==-vs-unforced-replay",
                        "graph after removeDuplicateEdges differs (operator==) from the same calls replayed without force; model " + s.m.str());
    }

    // ---- C06: pairs of histories -------------------------------------------------
    void randomWalk(Rng &r, Subject<G, L> &s, unsigned len, unsigned style, uint64_t &stampCtr, unsigned maxN) {
        PairPicker pp;
        for (unsigned step = 0; step < len; ++step) {
            Op op = gen(r, s, pp, style, step, len, stampCtr, maxN);
            s.apply(op);
            ++calls;
            ++callsByKind[op.kind];
        }
    }
    // The verdict operator== must give is computed from what the two graphs OBSERVABLY are (vertices, hasEdge for every
    // pair, label / weight / multiplicity of every edge) - not from what their histories were meant to denote - so that a
    // defect in a mutator (another property's business) does not show up here as a wrong ==.
    static bool observablyEqual(const G &a, const G &b) {
        if (a.getSize() != b.getSize()) return false;
        size_t n = a.getSize();
        for (VertexIndex i = 0; i < n; ++i)
            for (VertexIndex j = 0; j < n; ++j) {
                bool ha = a.hasEdge(i, j);
                if (ha != b.hasEdge(i, j)) return false;
                if (ha && LT<L>::labelled && !(a.getEdgeLabel(i, j, false) == b.getEdgeLabel(i, j, false))) return false;
            }
        return true;
    }
    // neighbour lists and hasEdge tell the same story, each neighbour listed once (force is off in this mode)
    static bool selfConsistent(const G &g) {
        size_t n = g.getSize();
        size_t entries = 0, pairs = 0;
        for (VertexIndex i = 0; i < n; ++i) {
            std::set<VertexIndex> seen;
            for (auto j : g.getOutNeighbours(i)) {
                ++entries;
                if (j >= n || !seen.insert(j).second || !g.hasEdge(i, j)) return false;
                if (!directed && !g.hasEdge(j, i)) return false;
            }
            for (VertexIndex j = 0; j < n; ++j)
                if (g.hasEdge(i, j)) {
                    ++pairs;
                    if (!seen.count(j)) return false;
                }
        }
        if (entries != pairs) return false;
        size_t loops = 0;
        for (VertexIndex i = 0; i < n; ++i) loops += g.hasEdge(i, i);
        return g.getEdgeNumber() == (directed ? pairs : (pairs - loops) / 2 + loops);
    }
    // byConstruction: what the generator intended (equal routes / a perturbed copy); only used for the coverage counters
    bool eqAll(const G &a, const G &b, bool byConstruction, const char *what, const std::string &ctx) {
        if (!selfConsistent(a) || !selfConsistent(b)) {
            // lists, hasEdge and the edge count contradict each other: "the set of edges" is not well defined for this
            // object, which is C01/C02/C04's verdict; operator== is not judged on it
            R.count("pairs_skipped_graph_internally_inconsistent");
            return true;
        }
        bool want = observablyEqual(a, b);
        bool r1 = (a == b), r2 = (b == a), n1 = (a != b), n2 = (b != a);
        R.count(want ? "equality_checks_expected_equal" : "equality_checks_expected_unequal");
        if (want != byConstruction) R.count("pairs_whose_observable_relation_differs_from_the_intended_one");
        if (r1 != want || r2 != want || n1 == want || n2 == want) {
            std::ostringstream o;
            o << what << ": the two graphs are observably " << (want ? "equal" : "different") << " (size, hasEdge for every pair, value on every edge) but a==b:" << r1
              << " b==a:" << r2 << " a!=b:" << n1 << " b!=a:" << n2 << "; " << ctx;
            R.violation(cls + "/operator==/" + what, o.str());
            return false;
        }
        return true;
    }
    // C06 at scale: 40-85 vertices, four hubs with 34+ neighbours each; the same edge set inserted in two orders must compare
    // equal, and a copy that differs by a degree-preserving swap of two edges between hubs (same size, same edge count, same
    // degree at every vertex) must compare unequal
    void runScalePair(uint64_t sub) {
        Rng r = caseRng(R.args.seed, hashStr(cls + "scalepair"), sub);
        unsigned n = 40 + r.u(46);
        std::vector<VertexIndex> perm(n);
        for (unsigned v = 0; v < n; ++v) perm[v] = v;
        for (size_t i = n; i > 1; --i) std::swap(perm[i - 1], perm[r.u((unsigned)i)]);
        VertexIndex h[4] = {perm[0], perm[1], perm[2], perm[3]};
        std::map<Edge, uint64_t> E; // canonical pair -> stamp
        uint64_t st = 1;
        auto add = [&](VertexIndex a, VertexIndex b) {
            Edge k = canon(directed, a, b);
            if (!E.count(k)) E[k] = ++st;
        };
        for (int t = 0; t < 4; ++t) {
            unsigned reach = 34 + r.u(n - 38);
            for (unsigned q = 4; q < 4 + reach && q < n; ++q) {
                if (directed && r.chance(1, 5)) add(perm[q], h[t]);
                else add(h[t], perm[q]);
            }
        }
        for (int a = 0; a < 4; ++a)
            for (int b = 0; b < 4; ++b)
                if (a != b) add(h[a], h[b]); // hubs are neighbours of one another
        for (unsigned t = 0; t < n; ++t) add(r.u(n), r.u(n));
        // the swap: h0->h1 and h2->h3 present, h0->h3 and h2->h1 absent
        E.erase(canon(directed, h[0], h[3]));
        E.erase(canon(directed, h[2], h[1]));
        add(h[0], h[1]);
        add(h[2], h[3]);
        std::vector<std::pair<Edge, uint64_t>> order(E.begin(), E.end());
        auto buildIn = [&](G &g, bool shuffle) {
            auto o = order;
            if (shuffle)
                for (size_t i = o.size(); i > 1; --i) std::swap(o[i - 1], o[r.u((unsigned)i)]);
            for (auto &kv : o) {
                VertexIndex a = kv.first.first, b = kv.first.second;
                if (!directed && r.chance(1, 2)) std::swap(a, b);
                g.addEdge(a, b, labelOf<L>(kv.second));
            }
        };
        G A(n), B(n);
        buildIn(A, false);
        buildIn(B, true);
        R.describeCase = [&] {
            std::ostringstream o;
            o << "{\"class\": " << q(cls) << ", \"vertices\": " << n << ", \"edges\": " << E.size() << ", \"hubs\": [" << h[0] << "," << h[1] << "," << h[2] << "," << h[3] << "]}";
            return o.str();
        };
        ++scalePairs;
        R.distinct.insert(mix64(sub, hashStr(cls + "sp")));
        std::string ctx = "graphs on " + std::to_string(n) + " vertices with " + std::to_string(E.size()) + " edges and four hubs of 34+ neighbours";
        if (!eqAll(A, B, true, "scale-same-edges-two-insertion-orders", ctx)) return;
        G D(B);
        uint64_t l01 = E[canon(directed, h[0], h[1])], l23 = E[canon(directed, h[2], h[3])];
        D.removeEdge(h[0], h[1]);
        D.removeEdge(h[2], h[3]);
        D.addEdge(h[0], h[3], labelOf<L>(l01));
        D.addEdge(h[2], h[1], labelOf<L>(l23));
        if (!eqAll(D, A, false, "scale-degree-preserving-swap-between-hubs", ctx)) return;
        if (!eqAll(A, D, false, "scale-degree-preserving-swap-between-hubs", ctx)) return;
        eqAll(B, A, true, "scale-source-after-copy-mutated", ctx);
    }
    void runPair(uint64_t sub) {
        if (sub % (LT<L>::labelled ? 40 : 8) == 1) return runScalePair(sub);
        Rng r = caseRng(R.args.seed, hashStr(cls + "pair"), sub);
        static const unsigned startN[] = {0, 1, 2, 3, 5};
        uint64_t stampCtr = (sub % 1000) * 1000;
        unsigned n0 = startN[sub % 5];
        Subject<G, L> A(n0);
        unsigned lenA = 5 + r.u(50), styleA = r.u(3); // sequenced: argument evaluation order is unspecified
        randomWalk(r, A, lenA, styleA, stampCtr, cfg.maxN);
        const SModel<L> &T = A.m;
        // B: another route to the same graph
        unsigned nb = r.u(T.n + 1);
        Subject<G, L> B(nb);
        unsigned lenB = r.u(45), styleB = r.u(3);
        randomWalk(r, B, lenB, styleB, stampCtr, T.n);
        if (B.m.n < T.n) {
            // grow in steps
            while (B.m.n < T.n) {
                Op op; op.kind = RESIZE; op.k = 1 + r.u(T.n - B.m.n);
                B.apply(op);
            }
        }
        std::vector<Op> repair;
        for (auto &kv : B.m.e)
            if (!T.e.count(kv.first)) {
                Op op; op.kind = REMOVE; op.i = kv.first.first; op.j = kv.first.second;
                if (!directed && r.chance(1, 2)) std::swap(op.i, op.j);
                repair.push_back(op);
            }
        for (auto &kv : T.e) {
            auto it = B.m.e.find(kv.first);
            Op op; op.i = kv.first.first; op.j = kv.first.second;
            if (!directed && r.chance(1, 2)) std::swap(op.i, op.j);
            if (it == B.m.e.end()) {
                op.kind = kv.second.stamp ? ADD_L : ADD_D; op.stamp = kv.second.stamp;
                repair.push_back(op);
            } else if (it->second.stamp != kv.second.stamp) {
                op.kind = SETLABEL; op.stamp = kv.second.stamp;
                repair.push_back(op);
            }
        }
        for (size_t i = repair.size(); i > 1; --i) std::swap(repair[i - 1], repair[r.u((unsigned)i)]);
        unsigned ghostsBefore = B.removalsOfLabelled;
        for (auto &op : repair) B.apply(op);
        // C: straight build in random order and orientation
        Subject<G, L> C(T.n);
        {
            std::vector<Op> ops;
            for (auto &kv : T.e) {
                Op op; op.i = kv.first.first; op.j = kv.first.second;
                if (!directed && r.chance(1, 2)) std::swap(op.i, op.j);
                op.kind = kv.second.stamp ? ADD_L : ADD_D; op.stamp = kv.second.stamp;
                ops.push_back(op);
            }
            for (size_t i = ops.size(); i > 1; --i) std::swap(ops[i - 1], ops[r.u((unsigned)i)]);
            for (auto &op : ops) C.apply(op);
        }
        R.describeCase = [&] {
            return "{\"class\": " + q(cls) + ", \"history_A\": " + A.histJson() + ", \"start_A\": " + std::to_string(n0) + ", \"history_B\": " + B.histJson() +
                   ", \"start_B\": " + std::to_string(nb) + ", \"history_C\": " + C.histJson() + ", \"denoted\": " + q(T.str()) + "}";
        };
        std::string ctx = "both histories denote " + T.str();
        if (!(B.m.hash() == T.hash() && C.m.hash() == T.hash())) {
            fprintf(stderr, "harness error: repair did not reach target\n");
            exit(2);
        }
        if (B.removalsOfLabelled + A.removalsOfLabelled > 0) R.count("pairs_where_a_history_removed_edges");
        (void)ghostsBefore;
        R.distinct.insert(mix64(T.hash(), mix64(hashStr(B.histJson()), hashStr(A.histJson()))));
        if (!eqAll(A.g, A.g, true, "reflexive", ctx)) return;
        if (!eqAll(A.g, B.g, true, "two-histories-same-graph", ctx)) return;
        if (!eqAll(A.g, C.g, true, "history-vs-fresh-build", ctx)) return;
        if (!eqAll(B.g, C.g, true, "history-vs-fresh-build", ctx)) return;
        // copies
        std::string snapB = snapshot(B.g);
        G D(B.g);
        G E(0);
        E = A.g;
        if (!eqAll(D, B.g, true, "copy-constructed", ctx)) return;
        if (!eqAll(E, A.g, true, "copy-assigned", ctx)) return;
        // perturb the copy by exactly one thing
        unsigned n = T.n;
        std::vector<int> feasible;
        if (n > 0 && T.e.size() < (directed ? (size_t)n * n : (size_t)n * (n + 1) / 2)) feasible.push_back(0); // add an absent edge
        if (!T.e.empty()) feasible.push_back(1);                                                                     // remove an edge
        if (!T.e.empty() && LT<L>::labelled) feasible.push_back(2);                                                  // change one label
        feasible.push_back(3);                                                                                       // one more vertex
        if (feasible.size() >= 3 && feasible[0] == 0 && feasible[1] == 1) { feasible.push_back(4); feasible.push_back(4); } // move one edge (same count)
        int pk = feasible[r.u((unsigned)feasible.size())];
        std::string pdesc;
        if (pk == 0) {
            VertexIndex i, j;
            do { i = r.u(n); j = r.u(n); } while (T.has(i, j));
            D.addEdge(i, j, LT<L>::make(++stampCtr));
            pdesc = "one-extra-edge";
        } else if (pk == 1) {
            auto it = T.e.begin();
            std::advance(it, r.u((unsigned)T.e.size()));
            if (directed || r.chance(1, 2)) D.removeEdge(it->first.first, it->first.second);
            else D.removeEdge(it->first.second, it->first.first);
            pdesc = "one-edge-fewer";
        } else if (pk == 2) {
            auto it = T.e.begin();
            std::advance(it, r.u((unsigned)T.e.size()));
            L nl = LT<L>::make(it->second.stamp + 1);
            if (nl == labelOf<L>(it->second.stamp)) nl = LT<L>::make(it->second.stamp + 2);
            D.setEdgeLabel(it->first.first, it->first.second, nl);
            pdesc = "one-label-differs";
        } else if (pk == 4) {
            // same number of edges, one of them elsewhere (self-loops included on both sides)
            auto it = T.e.begin();
            std::advance(it, r.u((unsigned)T.e.size()));
            VertexIndex i, j;
            do { i = r.u(n); j = r.chance(1, 3) ? i : r.u(n); } while (T.has(i, j));
            D.removeEdge(it->first.first, it->first.second);
            D.addEdge(i, j, labelOf<L>(it->second.stamp));
            pdesc = "one-edge-moved";
        } else {
            D.resize(n + 1);
            pdesc = "one-extra-vertex";
        }
        R.count("perturbation_" + pdesc);
        if (!eqAll(D, A.g, false, pdesc.c_str(), ctx)) return;
        if (!eqAll(D, B.g, false, "mutated-copy-vs-source", ctx)) return;
        // the source is unaffected by the change to its copy
        if (!eqAll(B.g, A.g, true, "source-after-copy-mutated", ctx)) return;
        if (snapshot(B.g) != snapB) {
            R.violation(cls + "/copy/source-changed-after-mutating-copy", "the source graph's observable state changed when its copy was mutated; before: " + snapB + " after: " + snapshot(B.g));
            return;
        }
        if (sub < 10 && R.samples.size() < 3)
            R.sample("{\"class\": " + q(cls) + ", \"history_A\": " + A.histJson() + ", \"history_B\": " + B.histJson() + ", \"perturbation\": " + q(pdesc) + "}");
    }
};

template <class G> void registerOne(const char *clsBase, bool directed) {
    std::string cls = std::string(clsBase) + "<" + LT<LabelT>::name() + ">";
    Runner rn;
    rn.family = "simple";
    rn.cls = cls;
    rn.label = LT<LabelT>::name();
    rn.directed = directed;
    rn.run = [cls](Reporter &R, const HistConfig &cfg, uint64_t sub) {
        static std::map<std::string, Monitor<G, LabelT> *> mons;
        // one monitor per (class, prop) so counters accumulate across cases
        auto &mp = mons[cls + cfg.prop];
        if (!mp) mp = new Monitor<G, LabelT>(R, cfg, cls);
        if (sub == (uint64_t)-1) {
            mp->flush();
            return;
        }
        if (cfg.pairMode) mp->runPair(sub);
        else mp->runHistory(sub);
    };
    static RegisterRunner reg(rn);
}

struct Init {
    Init() {
        registerOne<BaseGraph::LabeledDirectedGraph<LabelT>>("LabeledDirectedGraph", true);
        registerOne<BaseGraph::LabeledUndirectedGraph<LabelT>>("LabeledUndirectedGraph", false);
    }
} init;

} // namespace
} // namespace vf
