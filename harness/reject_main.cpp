// Driver of the C07 rejected-call matrix.
#include "reject.hpp"

namespace vf {
std::vector<RejectRunner> &rejectRunners() {
    static std::vector<RejectRunner> r;
    return r;
}
} // namespace vf
using namespace vf;

int main(int argc, char **argv) {
    Reporter R;
    R.args = parseArgs(argc, argv);
    R.openProgress();
    auto &all = rejectRunners();
    std::sort(all.begin(), all.end(), [](const RejectRunner &a, const RejectRunner &b) { return a.cls < b.cls; });
    bool isolate = R.args.geti("isolate", 0) != 0;
    uint64_t nr = all.size();
    forCases(R, R.args.cases, "reject", [&](uint64_t idx) {
        const RejectRunner &r = all[idx % nr];
        R.count("cases_" + r.cls);
        r.run(R, idx / nr, isolate);
    });
    for (auto &r : all) r.run(R, (uint64_t)-1, isolate);
    R.counter("classes_driven_max") = nr;
    R.counter("distinct_cells_max") = R.states.size();
    R.write();
    return R.viols.empty() ? 0 : 1;
}
