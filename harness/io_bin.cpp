// Binary edge lists: C14 (round trip, byte layout, hand-made files, open
// failures) and the truncation half of C15.
#include "io_common.hpp"

#include <sys/stat.h>

namespace vf {
namespace {
using namespace BaseGraph;

struct Counters {
    uint64_t graphsWithDuplicates = 0, codecFiles = 0, secondRoundTrips = 0, bigFiles = 0, bigTruncFiles = 0, largeIndexGraphs = 0, roundTrips = 0, bytesCompared = 0, handmade = 0, openFailures = 0, labelReads = 0, truncFiles = 0, truncCuts = 0, cutsInsideRecord = 0, cutsAtBoundary = 0,
             truncThrew = 0, truncReturned = 0, zeroVertexGraphs = 0, noEdgeGraphs = 0;
    ObsCounters oc;
} C;

template <class L> struct BL {
    static L make(uint64_t s) { return (L)(s * 2654435761ULL + 12345); }
};
template <> struct BL<float> {
    static float make(uint64_t s) { return (float)((int64_t)(s % 20001) - 10000) / 8.0f; }
};
template <> struct BL<double> {
    static double make(uint64_t s) { return (double)((int64_t)(s % 2000001) - 1000000) / 1024.0; }
};
template <> struct BL<NoLabel> {
    static NoLabel make(uint64_t) { return {}; }
};
template <class L> const char *bname();
template <> const char *bname<NoLabel>() { return "NoLabel"; }
template <> const char *bname<unsigned char>() { return "uint8"; }
template <> const char *bname<signed char>() { return "int8"; }
template <> const char *bname<char>() { return "char"; }
template <> const char *bname<unsigned short>() { return "uint16"; }
template <> const char *bname<int>() { return "int32"; }
template <> const char *bname<unsigned>() { return "uint32"; }
template <> const char *bname<long long>() { return "int64"; }
template <> const char *bname<unsigned long long>() { return "uint64"; }
template <> const char *bname<float>() { return "float"; }
template <> const char *bname<double>() { return "double"; }

template <class L> constexpr size_t labelSize() { return std::is_same<L, NoLabel>::value ? 0 : sizeof(L); }
template <class L> void putLabel(std::string &o, const L &l) {
    if constexpr (!std::is_same<L, NoLabel>::value) putLE(o, l);
}
template <class L> std::string lstr(const L &l) {
    if constexpr (std::is_same<L, NoLabel>::value) return "-";
    else if constexpr (std::is_floating_point<L>::value) {
        char b[40];
        snprintf(b, sizeof b, "%.17g", (double)l);
        return b;
    } else return std::to_string((long long)l);
}

template <template <class...> class GT> struct Dir;
template <> struct Dir<LabeledDirectedGraph> {
    static constexpr bool value = true;
    static const char *name() { return "LabeledDirectedGraph"; }
};
template <> struct Dir<LabeledUndirectedGraph> {
    static constexpr bool value = false;
    static const char *name() { return "LabeledUndirectedGraph"; }
};

template <template <class...> class GT, class L> GT<L> loadBin(const std::string &p) { return io::loadBinaryEdgeList<GT, L>(p); }

template <class G, class L> std::string compareLoaded(G &loaded, const GraphSpec &s, const std::map<Edge, L> &labels, const G *original, const std::map<Edge, unsigned> *copies = nullptr) {
    std::ostringstream o;
    unsigned used = usedSize(s);
    if (loaded.getSize() != used) {
        o << "loaded graph has " << loaded.getSize() << " vertices, 1+largest used index is " << used;
        return o.str();
    }
    loaded.resize(s.n);
    std::string e;
    if (s.n > 64) {
        e = checkSparse(loaded, s);
    } else {
        Expect x;
        x.directed = s.directed;
        x.n = s.n;
        for (auto &e2 : s.edges) {
            x.e[e2] = Expect::Cell();
            if (copies && copies->count(e2)) x.e[e2].copies = copies->at(e2);
        }
        e = checkEdgesOnly(loaded, x, C.oc);
    }
    if (!e.empty()) return "loaded graph: " + e;
    if constexpr (!std::is_same<L, NoLabel>::value)
        for (auto &kv : labels) {
            ++C.labelReads;
            L got = loaded.getEdgeLabel(kv.first.first, kv.first.second, false);
            if (memcmp(&got, &kv.second, sizeof(L)) != 0) {
                o << "loaded graph: label of (" << kv.first.first << "," << kv.first.second << ") is " << lstr(got) << ", expected " << lstr(kv.second);
                return o.str();
            }
        }
    if (original && (!(loaded == *original) || (loaded != *original) || !(*original == loaded))) return "loaded graph, resized to the original size, is not == the original";
    return "";
}

template <template <class...> class GT, class L> void binary(Reporter &R, uint64_t sub, bool handmade) {
    constexpr bool directed = Dir<GT>::value;
    std::string cls = std::string(Dir<GT>::name()) + "<" + bname<L>() + ">";
    Rng r = caseRng(R.args.seed, hashStr(cls + (handmade ? "hm" : "bin")), sub);
    GraphSpec s = sub % 4 == 3 ? ioSpecSparse(r, directed) : (sub % 32 == 5 ? ioSpecBig(r, directed) : ioSpec(r, directed));
    if (sub % 32 == 5) ++C.bigFiles;
    if (s.n > 64) ++C.largeIndexGraphs;
    if (s.n == 0) ++C.zeroVertexGraphs;
    if (s.edges.empty()) ++C.noEdgeGraphs;
    std::map<Edge, L> labels;
    GT<L> g(s.n);
    for (auto &e : insertionOrder(s, 2, r)) {
        L l = BL<L>::make(1 + r.below(1ULL << 40));
        labels[canon(directed, e.first, e.second)] = l;
        g.addEdge(e.first, e.second, l);
    }
    // one written graph in nine carries forced duplicates (same label on every copy): "any graph" - one record per copy,
    // and the copies are there again after loading
    std::map<Edge, unsigned> copies;
    size_t listed = s.edges.size();
    if (!handmade && sub % 9 == 4 && s.n <= 64 && !s.edges.empty()) {
        ++C.graphsWithDuplicates;
        for (auto &e : s.edges)
            if (r.chance(1, 3)) {
                unsigned k = 1 + r.u(2);
                copies[e] = 1 + k;
                listed += k;
                for (unsigned c = 0; c < k; ++c) g.addEdge(e.first, e.second, labels.at(e), true);
            }
    }
    const std::map<Edge, unsigned> *cp = copies.empty() ? nullptr : &copies;
    std::string path = ioTmp(R, "g.bin");
    std::string bytes;
    R.describeCase = [&] { return "{\"class\": " + q(cls) + ", \"graph\": " + q(s.str()) + ", \"file_hex\": " + q(hexOf(bytes, 400)) + "}"; };
    R.distinct.insert(mix64(s.hash(), hashStr(cls) + handmade));
    try {
        if (!handmade) {
            io::writeBinaryEdgeList(g, path);
            bytes = readBytes(path);
            // the monitor's own encoding of what edges() enumerates
            std::string want;
            std::vector<Edge> es;
            collectEdges(g, listed * 2 + 8, es);
            for (auto &e : es) {
                putLE<uint32_t>(want, e.first);
                putLE<uint32_t>(want, e.second);
                putLabel<L>(want, labels.at(canon(directed, e.first, e.second)));
            }
            C.bytesCompared += want.size();
            size_t rec = 8 + labelSize<L>();
            if (bytes.size() != listed * rec) {
                R.violation(cls + "/writeBinaryEdgeList/file-length", "file has " + std::to_string(bytes.size()) + " bytes, edges x record size = " + std::to_string(listed * rec) + "; graph " + s.str());
                unlink(path.c_str());
                return;
            }
            // the statement fixes the record layout, not the order of the records: compare the records as a multiset
            // (and, for an undirected graph, not the orientation in which a pair is written)
            auto records = [rec](const std::string &b) {
                std::vector<std::string> v;
                for (size_t off = 0; off + rec <= b.size(); off += rec) {
                    std::string one = b.substr(off, rec);
                    if (!directed) {
                        uint32_t a, c;
                        memcpy(&a, one.data(), 4);
                        memcpy(&c, one.data() + 4, 4);
                        if (a > c) {
                            memcpy(&one[0], &c, 4);
                            memcpy(&one[4], &a, 4);
                        }
                    }
                    v.push_back(one);
                }
                std::sort(v.begin(), v.end());
                return v;
            };
            if (records(bytes) != records(want)) {
                R.violation(cls + "/writeBinaryEdgeList/byte-layout", "file records " + hexOf(bytes) + " are not the records u32le src, u32le dst, label-le of the edges " + hexOf(want) + "; graph " + s.str());
                unlink(path.c_str());
                return;
            }
        } else {
            // hand-made file: records in shuffled order, possibly the other orientation for undirected pairs
            auto order = insertionOrder(s, 3, r);
            for (auto &e : order) {
                putLE<uint32_t>(bytes, e.first);
                putLE<uint32_t>(bytes, e.second);
                putLabel<L>(bytes, labels.at(canon(directed, e.first, e.second)));
            }
            writeBytes(path, bytes);
            ++C.handmade;
        }
        GT<L> loaded = loadBin<GT, L>(path);
        GT<L> again = loadBin<GT, L>(path); // the same bytes load identically
        unlink(path.c_str());
        ++C.roundTrips;
        R.digest(bytes);
        if (!(loaded == again)) {
            R.violation(cls + "/loadBinaryEdgeList/not-deterministic", "loading the same file twice gives unequal graphs; graph " + s.str());
            return;
        }
        std::string err = compareLoaded<GT<L>, L>(loaded, s, labels, &g, cp);
        if (!err.empty()) { R.violation(cls + (handmade ? "/binary-hand-made-file/" : "/binary-round-trip/") + err.substr(0, err.find_first_of(":(")), err + "; graph " + s.str() + " file " + hexOf(bytes)); return; }
        if (sub % 3 == 0) {
            // a loaded graph is a graph: writing it and loading it again must round-trip as well
            io::writeBinaryEdgeList(loaded, path);
            GT<L> loaded2 = loadBin<GT, L>(path);
            unlink(path.c_str());
            ++C.secondRoundTrips;
            err = compareLoaded<GT<L>, L>(loaded2, s, labels, &g, cp);
            if (!err.empty()) R.violation(cls + "/binary-round-trip-of-a-loaded-graph/" + err.substr(0, err.find_first_of(":(")), err + "; graph " + s.str());
        }
    } catch (std::exception &ex) {
        unlink(path.c_str());
        R.violation(cls + "/binary-round-trip/threw", std::string("threw ") + ex.what() + "; graph " + s.str());
    }
    if (sub < 2 && R.samples.size() < 6) R.sample("{\"class\": " + q(cls) + ", \"graph\": " + q(s.str()) + ", \"file_hex\": " + q(hexOf(bytes, 120)) + "}");
}

// ---- open failures ----------------------------------------------------------
template <class F> void expectRuntimeError(Reporter &R, const std::string &what, const std::string &path, F f) {
    std::string w;
    Exc ex = classify(f, &w);
    ++C.openFailures;
    if (ex != EX_RUNTIME_ERROR) R.violation("open-failure/" + what, what + " on '" + path.substr(0, 80) + "': expected std::runtime_error, got " + excName(ex) + (w.empty() ? "" : " (" + w.substr(0, 100) + ")"));
}
void openfail(Reporter &R, uint64_t sub) {
    std::string base = R.args.workDir.empty() ? "/tmp" : R.args.workDir;
    std::string dir = base + "/io-dir-" + std::to_string(getpid());
    mkdir(dir.c_str(), 0755);
    std::vector<std::pair<std::string, std::string>> badForBoth = {
        {"missing-directory", base + "/no-such-dir-" + std::to_string(sub) + "/f.bin"},
        {"over-long-name", base + "/" + std::string(300, 'n')},
        {"empty-name", ""},
    };
    LabeledDirectedGraph<int> gi(3);
    gi.addEdge(0, 1, 5);
    LabeledUndirectedGraph<NoLabel> gu(3);
    gu.addEdge(0, 2);
    std::function<std::string(const int &)> enc = [](const int &v) { return std::to_string(v); };
    std::function<int(const std::string &)> dec = [](const std::string &x) { return std::stoi(x); };
    R.describeCase = [&] { return std::string("{\"mode\": \"open-failure\"}"); };
    R.distinct.insert(sub);
    auto writers = [&](const std::string &tag, const std::string &p) {
        expectRuntimeError(R, "writeBinaryEdgeList(labelled)/" + tag, p, [&] { io::writeBinaryEdgeList(gi, p); });
        expectRuntimeError(R, "writeBinaryEdgeList(unlabelled)/" + tag, p, [&] { io::writeBinaryEdgeList(gu, p); });
        expectRuntimeError(R, "writeTextEdgeList(labelled)/" + tag, p, [&] { io::writeTextEdgeList(gi, p, enc); });
        expectRuntimeError(R, "writeTextEdgeList(unlabelled)/" + tag, p, [&] { io::writeTextEdgeList(gu, p); });
    };
    auto loaders = [&](const std::string &tag, const std::string &p) {
        expectRuntimeError(R, "loadBinaryEdgeList(labelled)/" + tag, p, [&] { (void)io::loadBinaryEdgeList<LabeledDirectedGraph, int>(p); });
        expectRuntimeError(R, "loadBinaryEdgeList(unlabelled)/" + tag, p, [&] { (void)io::loadBinaryEdgeList<LabeledUndirectedGraph, NoLabel>(p); });
        expectRuntimeError(R, "loadTextEdgeList(labelled)/" + tag, p, [&] { (void)io::loadTextEdgeList<LabeledDirectedGraph, int>(p, dec); });
        expectRuntimeError(R, "loadTextEdgeList(unlabelled)/" + tag, p, [&] { (void)io::loadTextEdgeList<LabeledUndirectedGraph, NoLabel>(p); });
        expectRuntimeError(R, "loadTextVertexLabeledEdgeList/" + tag, p, [&] { (void)io::loadTextVertexLabeledEdgeList<LabeledDirectedGraph, NoLabel>(p); });
    };
    for (auto &b : badForBoth) {
        writers(b.first, b.second);
        loaders(b.first, b.second);
    }
    // a directory cannot be opened for writing (it can be opened for reading on Linux, so loaders are not asked)
    writers("is-a-directory", dir);
    // a file that exists but was removed again cannot be opened by a loader
    std::string gone = base + "/io-gone-" + std::to_string(getpid()) + ".bin";
    writeBytes(gone, "abc");
    unlink(gone.c_str());
    loaders("removed-file", gone);
    rmdir(dir.c_str());
}

// every writer and loader on one given path (used under `strace -e inject=openat:error=...`: the path exists and is
// perfectly openable, the failure is injected at the system-call boundary)
void openfailPath(Reporter &R, const std::string &path) {
    LabeledDirectedGraph<int> gi(3);
    gi.addEdge(0, 1, 5);
    LabeledUndirectedGraph<NoLabel> gu(3);
    gu.addEdge(0, 2);
    std::function<std::string(const int &)> enc = [](const int &v) { return std::to_string(v); };
    std::function<int(const std::string &)> dec = [](const std::string &x) { return std::stoi(x); };
    R.describeCase = [&] { return "{\"mode\": \"open-failure-injected\", \"path\": " + q(path) + "}"; };
    const std::string tag = "injected-openat-failure";
    expectRuntimeError(R, "loadBinaryEdgeList(labelled)/" + tag, path, [&] { (void)io::loadBinaryEdgeList<LabeledDirectedGraph, int>(path); });
    expectRuntimeError(R, "loadBinaryEdgeList(unlabelled)/" + tag, path, [&] { (void)io::loadBinaryEdgeList<LabeledUndirectedGraph, NoLabel>(path); });
    expectRuntimeError(R, "loadTextEdgeList(labelled)/" + tag, path, [&] { (void)io::loadTextEdgeList<LabeledDirectedGraph, int>(path, dec); });
    expectRuntimeError(R, "loadTextEdgeList(unlabelled)/" + tag, path, [&] { (void)io::loadTextEdgeList<LabeledUndirectedGraph, NoLabel>(path); });
    expectRuntimeError(R, "loadTextVertexLabeledEdgeList/" + tag, path, [&] { (void)io::loadTextVertexLabeledEdgeList<LabeledDirectedGraph, NoLabel>(path); });
    expectRuntimeError(R, "writeBinaryEdgeList(labelled)/" + tag, path, [&] { io::writeBinaryEdgeList(gi, path); });
    expectRuntimeError(R, "writeBinaryEdgeList(unlabelled)/" + tag, path, [&] { io::writeBinaryEdgeList(gu, path); });
    expectRuntimeError(R, "writeTextEdgeList(labelled)/" + tag, path, [&] { io::writeTextEdgeList(gi, path, enc); });
    expectRuntimeError(R, "writeTextEdgeList(unlabelled)/" + tag, path, [&] { io::writeTextEdgeList(gu, path); });
}

// ---- C15 (a): truncation ----------------------------------------------------
// User-supplied label codecs (both IO routines take one): the record size is then the codec's, not sizeof(label).
// gCodec 1: an int label kept in 2 bytes; 2: in 8 bytes; 0: the library's default codec. Only used with int labels.
int gCodec = 0;
size_t codecBytes(size_t dflt) { return gCodec == 1 ? 2 : gCodec == 2 ? 8 : dflt; }
void codecWrite(std::ofstream &f, int v) {
    if (gCodec == 1) { int16_t x = (int16_t)v; f.write((const char *)&x, 2); }
    else { int64_t x = v; f.write((const char *)&x, 8); }
}
std::ifstream &codecRead(std::ifstream &f, int &v) {
    if (gCodec == 1) { int16_t x = 0; if (f.read((char *)&x, 2)) v = x; }
    else { int64_t x = 0; if (f.read((char *)&x, 8)) v = (int)x; }
    return f;
}
template <template <class...> class GT, class L> GT<L> loadTrunc(const std::string &p) {
    if constexpr (std::is_same<L, int>::value) {
        if (gCodec) return io::loadBinaryEdgeList<GT, L>(p, codecRead);
    }
    return loadBin<GT, L>(p);
}
template <template <class...> class GT, class L> std::string truncOne(const std::string &path, const std::string &full, size_t cut, bool directed, int *outcome) {
    size_t rec = 8 + codecBytes(labelSize<L>());
    size_t complete = cut / rec;
    std::ostringstream o;
    std::string what;
    GT<L> loaded(0);
    Exc ex = classify([&] { loaded = loadTrunc<GT, L>(path); }, &what);
    if (ex == EX_UNKNOWN) return "exception: loader threw something not derived from std::exception";
    if (ex != EX_NONE) {
        *outcome = 1;
        return "";
    }
    *outcome = 0;
    // exactly the complete records before the cut
    Expect x;
    x.directed = directed;
    unsigned n = 0;
    std::map<Edge, std::string> labelBytes;
    for (size_t k = 0; k < complete; ++k) {
        uint32_t a, b;
        memcpy(&a, full.data() + k * rec, 4);
        memcpy(&b, full.data() + k * rec + 4, 4);
        n = std::max(n, std::max(a, b) + 1);
        Edge key = canon(directed, a, b);
        if (x.e.count(key)) x.e[key].copies++;
        else x.e[key] = Expect::Cell();
        labelBytes[key] = full.substr(k * rec + 8, rec - 8);
    }
    // the claim is about edges ("exactly the edges of the complete records"); vertices beyond them carry no edge, fewer cannot hold them
    if (loaded.getSize() < n) {
        o << "returned-graph: " << loaded.getSize() << " vertices; the " << complete << " complete records before the cut (offset " << cut << " of " << full.size() << ") use " << n;
        return o.str();
    }
    if (loaded.getSize() > (size_t)n + 100000) return "returned-graph: far more vertices than any complete record names";
    x.n = (unsigned)loaded.getSize();
    ObsCounters oc;
    std::string e = x.n > 64 ? checkEdgesSparse(loaded, x) : checkEdgesOnly(loaded, x, oc);
    if (!e.empty()) {
        o << "returned-graph: " << e << "; file cut at offset " << cut << " of " << full.size() << " (record size " << rec << ", " << complete << " complete records)";
        return o.str();
    }
    if constexpr (!std::is_same<L, NoLabel>::value)
        for (auto &kv : labelBytes) {
            L got = loaded.getEdgeLabel(kv.first.first, kv.first.second, false);
            L stored{};
            if constexpr (std::is_same<L, int>::value) {
                if (gCodec == 1) { int16_t x; memcpy(&x, kv.second.data(), 2); stored = x; }
                else if (gCodec == 2) { int64_t x; memcpy(&x, kv.second.data(), 8); stored = (int)x; }
                else memcpy(&stored, kv.second.data(), sizeof(L));
            } else {
                memcpy(&stored, kv.second.data(), sizeof(L));
            }
            if (memcmp(&got, &stored, sizeof(L)) != 0) {
                o << "returned-graph: label of (" << kv.first.first << "," << kv.first.second << ") is not the one in the complete record; cut at " << cut;
                return o.str();
            }
        }
    return "";
}
template <template <class...> class GT, class L> void truncate(Reporter &R, uint64_t sub, bool isolate) {
    constexpr bool directed = Dir<GT>::value;
    std::string cls = std::string(Dir<GT>::name()) + "<" + bname<L>() + ">";
    Rng r = caseRng(R.args.seed, hashStr(cls + "trunc"), sub);
    bool big = sub % 24 == 7 && R.args.geti("nobig", 0) == 0;
    GraphSpec s = big ? ioSpecBig(r, directed) : ioSpec(r, directed);
    if (big && s.edges.size() > 2100) s.edges.resize(r.chance(1, 2) ? 2048 : 1024 + r.u(1077)); // every cut is a full load: keep these files to a few tens of kilobytes
    while (s.edges.empty()) s = ioSpec(r, directed);
    if (big) ++C.bigTruncFiles;
    GT<L> g(s.n);
    for (auto &e : insertionOrder(s, 2, r)) {
        L l = BL<L>::make(1 + r.below(1ULL << 40));
        if constexpr (std::is_same<L, int>::value) {
            if (gCodec == 1) l = (int)(int16_t)l; // what the 2-byte codec can hold
        }
        g.addEdge(e.first, e.second, l);
    }
    std::string path = ioTmp(R, "t.bin");
    bool viaCodec = false;
    if constexpr (std::is_same<L, int>::value) {
        if (gCodec) {
            io::writeBinaryEdgeList<GT, int>(g, path, std::function<void(std::ofstream &, int)>(codecWrite));
            viaCodec = true;
            ++C.codecFiles;
            cls += gCodec == 1 ? "+codec(2 bytes)" : "+codec(8 bytes)";
        }
    }
    if (!viaCodec) io::writeBinaryEdgeList(g, path);
    std::string full = readBytes(path);
    ++C.truncFiles;
    size_t rec = 8 + codecBytes(labelSize<L>());
    size_t curCut = 0;
    R.describeCase = [&] { return "{\"class\": " + q(cls) + ", \"graph\": " + q(s.str()) + ", \"file_hex\": " + q(hexOf(full, 400)) + ", \"cut_at\": " + std::to_string(curCut) + "}"; };
    R.distinct.insert(mix64(s.hash(), hashStr(cls)));
    // small files: EVERY cut offset. Files of tens of kilobytes: every offset within two records of a multiple of 4096
    // (stream-buffer refills), the first and last two records, and 120 seeded offsets
    std::vector<size_t> cuts;
    if (!big) {
        for (size_t cut = 0; cut <= full.size(); ++cut) cuts.push_back(cut);
    } else {
        std::set<size_t> cs;
        for (size_t k = 0; k <= full.size(); k += 4096)
            for (size_t d = 0; d <= 2 * rec + 1; ++d) {
                if (k + d <= full.size()) cs.insert(k + d);
                if (k >= d) cs.insert(k - d);
            }
        for (size_t d = 0; d <= 2 * rec && d <= full.size(); ++d) { cs.insert(d); cs.insert(full.size() - d); }
        for (int t = 0; t < 120; ++t) cs.insert((size_t)r.below(full.size() + 1));
        cuts.assign(cs.begin(), cs.end());
    }
    for (size_t cut : cuts) {
        curCut = cut;
        writeBytes(path, full.substr(0, cut));
        ++C.truncCuts;
        if (cut % rec) ++C.cutsInsideRecord; else ++C.cutsAtBoundary;
        std::string keyBase = cls + "/loadBinaryEdgeList/truncated";
        std::string where = cut % rec == 0 ? "at-record-boundary" : (cut % rec < 4 ? "inside-source-field" : cut % rec < 8 ? "inside-destination-field" : "inside-label-field");
        int outcome = 0;
        if (isolate) {
            Isolated ir = runIsolated([&] { int oc2; return truncOne<GT, L>(path, full, cut, directed, &oc2); });
            if (ir.status == Isolated::MISMATCH) { R.violation(keyBase + "/" + where + "/" + ir.text.substr(0, ir.text.find(':')), ir.text + "; graph " + s.str()); break; }
            if (ir.status == Isolated::CRASH) { R.violation(keyBase + "/" + where + "/" + ir.symptom, ir.text + "; cut at " + std::to_string(cut) + " graph " + s.str()); break; }
        } else {
            std::string e = truncOne<GT, L>(path, full, cut, directed, &outcome);
            if (outcome) ++C.truncThrew; else ++C.truncReturned;
            if (!e.empty()) { R.violation(keyBase + "/" + where + "/" + e.substr(0, e.find(':')), e + "; graph " + s.str()); break; }
        }
    }
    unlink(path.c_str());
    if (sub < 2 && R.samples.size() < 6) R.sample("{\"class\": " + q(cls) + ", \"graph\": " + q(s.str()) + ", \"file_bytes\": " + std::to_string(full.size()) + ", \"cuts\": \"0.." + std::to_string(full.size()) + "\"}");
}

void flush(Reporter &R) {
    C.oc.flush(R);
    R.count("written_graphs_carrying_forced_duplicates", C.graphsWithDuplicates);
    R.count("truncated_files_written_through_a_user_codec", C.codecFiles);
    R.count("binary_round_trips", C.roundTrips);
    R.count("round_trips_of_a_loaded_graph", C.secondRoundTrips);
    R.count("graphs_with_large_vertex_indices", C.largeIndexGraphs);
    R.count("files_of_tens_of_kilobytes_round_tripped", C.bigFiles);
    R.count("files_of_tens_of_kilobytes_truncated_around_buffer_boundaries", C.bigTruncFiles);
    R.count("file_bytes_compared_with_independent_encoding", C.bytesCompared);
    R.count("hand_made_files_loaded", C.handmade);
    R.count("open_failure_calls", C.openFailures);
    R.count("label_reads", C.labelReads);
    R.count("zero_vertex_graphs", C.zeroVertexGraphs);
    R.count("graphs_without_edges", C.noEdgeGraphs);
    R.count("truncated_source_files", C.truncFiles);
    R.count("cut_offsets_loaded", C.truncCuts);
    R.count("cuts_inside_a_record", C.cutsInsideRecord);
    R.count("cuts_at_a_record_boundary", C.cutsAtBoundary);
    R.count("truncated_loader_threw", C.truncThrew);
    R.count("truncated_loader_returned_prefix", C.truncReturned);
    C = Counters();
}

template <template <class...> class GT, class L> void dispatch(Reporter &R, const std::string &mode, uint64_t sub, bool isolate) {
    if (mode == "binary") binary<GT, L>(R, sub, false);
    else if (mode == "handmade") binary<GT, L>(R, sub, true);
    else if (mode == "truncate") truncate<GT, L>(R, sub, isolate);
}
#ifndef VK_PART
#define VK_PART -1
#endif
#define PART(p) (VK_PART < 0 || VK_PART == (p))
template <template <class...> class GT> void byLabel(Reporter &R, const std::string &mode, unsigned kind, uint64_t sub, bool isolate) {
    switch (kind) {
#if PART(0)
    case 0: dispatch<GT, NoLabel>(R, mode, sub, isolate); break;
    case 1: dispatch<GT, unsigned char>(R, mode, sub, isolate); break;
    case 2: dispatch<GT, signed char>(R, mode, sub, isolate); break;
    case 10: dispatch<GT, char>(R, mode, sub, isolate); break;
#endif
#if PART(1)
    case 3: dispatch<GT, unsigned short>(R, mode, sub, isolate); break;
    case 4: dispatch<GT, int>(R, mode, sub, isolate); break;
    case 5: dispatch<GT, unsigned>(R, mode, sub, isolate); break;
#endif
#if PART(2)
    case 6: dispatch<GT, long long>(R, mode, sub, isolate); break;
    case 7: dispatch<GT, unsigned long long>(R, mode, sub, isolate); break;
#endif
#if PART(3)
    case 8: dispatch<GT, float>(R, mode, sub, isolate); break;
    case 9: dispatch<GT, double>(R, mode, sub, isolate); break;
#endif
    default: break;
    }
}
struct Init {
    Init() {
        static RegisterIo reg({"bin", [](Reporter &R, const std::string &mode, uint64_t sub, bool isolate) {
                                   if (sub == (uint64_t)-1) { flush(R); return; }
                                   if (mode == "openfail") {
                                       if (PART(0)) openfail(R, sub);
                                       return;
                                   }
                                   if (mode == "openfail-path") {
                                       if (PART(0)) openfailPath(R, R.args.get("path"));
                                       return;
                                   }
                                   unsigned kind = (unsigned)(sub % 11);
                                   bool directed = (sub / 11) % 2 == 0;
                                   uint64_t s2 = sub / 22;
                                   if (mode == "truncate") {
                                       // label sizes 0/1/2/4/8
                                       // entries 7 and 8: int labels through a user codec of 2 / 8 bytes per label
                                       static const unsigned kinds[] = {0, 1, 3, 4, 9, 8, 6, 4, 4};
                                       kind = kinds[sub % 9];
                                       gCodec = sub % 9 == 7 ? 1 : sub % 9 == 8 ? 2 : 0;
                                       directed = (sub / 9) % 2 == 0;
                                       s2 = sub / 18;
                                   } else {
                                       gCodec = 0;
                                   }
                                   if (directed) byLabel<LabeledDirectedGraph>(R, mode, kind, s2, isolate);
                                   else byLabel<LabeledUndirectedGraph>(R, mode, kind, s2, isolate);
                               },
                               {"binary", "handmade", "openfail", "truncate"}});
    }
} init;
} // namespace
} // namespace vf
