// Driver of the shape monitors (C08, C09, C10).
#include "shape.hpp"

namespace vf {
std::vector<ShapeRunner> &shapeRunners() {
    static std::vector<ShapeRunner> r;
    return r;
}
} // namespace vf
using namespace vf;

int main(int argc, char **argv) {
    Reporter R;
    R.args = parseArgs(argc, argv);
    R.openProgress();
    auto &all = shapeRunners();
    std::sort(all.begin(), all.end(), [](const ShapeRunner &a, const ShapeRunner &b) { return a.cls < b.cls; });
    const std::string prop = R.args.prop;
    bool thorough = R.args.tier == "thorough";
    unsigned variants = 5;
    unsigned dirExh = thorough ? 4 : 3, undExh = thorough ? 5 : 4;
    uint64_t randomCount = (uint64_t)R.args.geti("random", thorough ? 40000 : 2500);
    unsigned randMin = 5, randMax = 12;
    if (prop == "C10") {
        variants = 4; // as enumerated, reversed, (mapped to variant 4) a graph with a past, (variant 5) a source carrying forced duplicates
        dirExh = thorough ? 4 : 3;
        undExh = thorough ? 5 : 4;
        randMin = 4;
        randMax = thorough ? 7 : 6;
        randomCount = (uint64_t)R.args.geti("random", thorough ? 60000 : 1200);
    }
    unsigned bigEvery = (unsigned)R.args.geti("bigevery", prop == "C10" ? 30 : (prop == "C09" ? 45 : 25));
    SpecSpace sd(true, dirExh, randomCount, randMin, randMax, bigEvery), su(false, undExh, randomCount, randMin, randMax, bigEvery);
    sd.padIsolated = su.padIsolated = true;
    uint64_t total = (sd.count() + su.count()) * variants;
    if (R.args.mode == "count") {
        printf("%llu\n", (unsigned long long)total);
        return 0;
    }
    GraphSpec cur;
    unsigned curVariant = 0;
    R.describeCase = [&] { return "{\"graph\": " + q(cur.str()) + ", \"insertion_order_variant\": " + std::to_string(curVariant) + "}"; };
    forCases(R, total, "shape", [&](uint64_t idx) {
        uint64_t si = idx / variants;
        curVariant = (unsigned)(idx % variants);
        if (prop == "C10" && curVariant >= 2) curVariant += 2;
        bool directed = si < sd.count();
        cur = directed ? sd.at(si, R.args.seed) : su.at(si - sd.count(), R.args.seed);
        if (cur.exhaustive) R.count("graphs_from_exhaustive_enumeration");
        else R.count(cur.n >= 25 ? "graphs_random_25_to_92_vertices_with_hubs" : "graphs_random");
        R.count(directed ? "specs_directed" : "specs_undirected");
        if (!cur.edges.empty() || cur.n > 0) R.distinct.insert(mix64(cur.hash(), curVariant));
        for (auto &r : all)
            if (r.directed == directed) r.run(R, prop, cur, curVariant, idx);
        if (idx % 997 == 3 && R.samples.size() < 5) R.sample("{\"graph\": " + q(cur.str()) + ", \"insertion_order_variant\": " + std::to_string(curVariant) + "}");
    });
    for (auto &r : all) r.run(R, prop, cur, 0, (uint64_t)-1);
    R.counter("classes_driven_max") = all.size();
    R.counter("exhaustive_directed_max_n_max") = dirExh;
    R.counter("exhaustive_undirected_max_n_max") = undExh;
    R.write();
    return R.viols.empty() ? 0 : 1;
}
