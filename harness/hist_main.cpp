// Driver of the history monitors (C01-C06, C16).
#include "hist.hpp"

namespace vf {
std::vector<Runner> &runners() {
    static std::vector<Runner> r;
    return r;
}
} // namespace vf

using namespace vf;

int main(int argc, char **argv) {
    Reporter R;
    R.args = parseArgs(argc, argv);
    R.openProgress();
    HistConfig cfg;
    cfg.prop = R.args.prop;
    std::vector<const Runner *> sel;
    auto &all = runners();
    std::sort(all.begin(), all.end(), [](const Runner &a, const Runner &b) { return a.cls < b.cls; });
    const std::string &p = cfg.prop;
    for (auto &r : all) {
        bool take = false;
        if (p == "C01") take = r.family == "simple" && r.directed;
        else if (p == "C02") take = r.family == "simple" && !r.directed;
        else if (p == "C03") take = r.family == "simple" && r.label != "NoLabel";
        else if (p == "C04") take = r.family == "multi";
        else if (p == "C05") take = r.family == "weighted";
        else if (p == "C06") take = true;
        else if (p == "C16") take = true;
        if (take) sel.push_back(&r);
    }
    if (p == "C01" || p == "C02") { cfg.obsStruct = true; cfg.obsLabel = false; }
    else if (p == "C03") { cfg.obsStruct = false; cfg.obsLabel = true; }
    else if (p == "C04" || p == "C05") { cfg.obsStruct = true; cfg.obsLabel = true; }
    else if (p == "C06") { cfg.pairMode = true; cfg.obsStruct = true; cfg.obsLabel = true; }
    else if (p == "C16") { cfg.force = true; cfg.obsStruct = true; cfg.obsLabel = false; }
    else {
        fprintf(stderr, "hist: unknown property %s\n", p.c_str());
        return 2;
    }
    cfg.maxLen = (unsigned)R.args.geti("maxlen", 80);
    cfg.maxN = (unsigned)R.args.geti("maxn", 7);
    if (sel.empty()) {
        fprintf(stderr, "hist: no runner selected\n");
        return 2;
    }
    uint64_t nr = sel.size();
    forCases(R, R.args.cases, "hist", [&](uint64_t idx) {
        const Runner *r = sel[idx % nr];
        R.count("histories_" + r->cls);
        r->run(R, cfg, idx / nr);
    });
    for (auto *r : sel) r->run(R, cfg, (uint64_t)-1); // flush counters
    R.count("classes_driven_max", 0);
    R.counter("classes_driven_max") = nr;
    R.write();
    return R.viols.empty() ? 0 : 1;
}
