// Shape monitors for LabeledDirectedGraph<L> / LabeledUndirectedGraph<L>
// (compiled per label kind). C08 enumeration, C09 conversions / constructors /
// copies, C10 induced subgraphs.
#include "shape.hpp"
#include <cmath>
#include "snapshot.hpp"

#include "BaseGraph/algorithms/topology.hpp"
#include "BaseGraph/fileio.hpp"

#include <deque>
#include <forward_list>
#include <list>
#include <sys/stat.h>

#ifndef VK_LABEL
#define VK_LABEL 1
#endif

namespace vf {
namespace {
#if VK_LABEL == 0
using L = BaseGraph::NoLabel;
#elif VK_LABEL == 1
using L = int;
#elif VK_LABEL == 3
using L = double; // only run for C10, where a third of the labels are NaN (a label that does not equal itself)
#elif VK_LABEL == 5
using L = std::string;
#else
using L = UserLabel;
#endif
using namespace BaseGraph;
namespace alg = BaseGraph::algorithms;
using DG = LabeledDirectedGraph<L>;
using UG = LabeledUndirectedGraph<L>;

const uint64_t NAN_STAMP = 999983;
L lab(uint64_t stamp) {
#if VK_LABEL == 3
    if (stamp == NAN_STAMP) return std::nan("");
#endif
    return LT<L>::make(stamp);
}
// equality of labels as values: a NaN label is the same label as itself although == says otherwise
bool sameLabel(const L &a, const L &b) {
#if VK_LABEL == 3
    if (std::isnan(a) && std::isnan(b)) return true;
#endif
    return a == b;
}

struct Counters {
    uint64_t nanLabels = 0, assignments = 0, rejectedInPast = 0, dupSources = 0, detours = 0, subOfSub = 0, rejectedInBetween = 0, remutated = 0, graphs = 0, iterSteps = 0, conversions = 0, ctorChecks = 0, copies = 0, subsets = 0, remapChecks = 0, labelReads = 0, filesWritten = 0, emptyGraphs = 0,
             zeroVertex = 0;
    ObsCounters oc;
} C;

template <class G> struct Built {
    G g;
    std::map<Edge, uint64_t> stamp; // canonical pair -> label stamp
    Expect x;
    std::vector<Edge> order;
    Built() : g(0) {}
};

template <class G> Built<G> build(const GraphSpec &s, unsigned variant, Rng &r, uint64_t salt, bool someNaN = false) {
    Built<G> b;
    b.g.resize(s.n);
    b.x.directed = s.directed;
    b.x.n = s.n;
    b.order = insertionOrder(s, variant, r);
    for (auto &e : b.order) {
        Edge k = canon(s.directed, e.first, e.second);
        uint64_t st = stampOf(k, salt);
        if (someNaN && VK_LABEL == 3 && st % 3 == 0) {
            st = NAN_STAMP;
            ++C.nanLabels;
        }
        b.stamp[k] = st;
        b.x.e[k] = Expect::Cell();
        b.g.addEdge(e.first, e.second, lab(st));
    }
    // the last insertion-order variant also gives the graph a past: foreign edges and labels that come and go, a vertex
    // stripped and rebuilt, sometimes everything cleared and rebuilt - the graph it denotes is the same
    if (variant == 4 && s.n > 0) {
        ++C.detours;
        for (int t = 0; t < 3; ++t) {
            VertexIndex i = r.u(s.n), j = r.u(s.n);
            if (!b.x.e.count(canon(s.directed, i, j))) {
                b.g.addEdge(i, j, lab(880000 + t));
                if (LT<L>::labelled) b.g.setEdgeLabel(i, j, lab(890000 + t));
                b.g.removeEdge(j == i || s.directed ? i : j, j == i || s.directed ? j : i);
            }
        }
        // calls the library rejects belong to a past as well (that they are rejected is C07's verdict; what the graph is
        // afterwards is whatever the accepted calls made it)
        for (int t = 0; t < 3; ++t) {
            VertexIndex ok = r.u(s.n), bad = s.n + r.u(2);
            unsigned which = r.u(6);
            try {
                switch (which) {
                case 0: b.g.addEdge(ok, bad, lab(870000 + t), true); break;
                case 1: b.g.addEdge(bad, ok, lab(870000 + t), true); break;
                case 2: b.g.addEdge(ok, bad, lab(870000 + t)); break;
                case 3: b.g.removeEdge(ok, bad); break;
                case 4: b.g.setEdgeLabel(bad, ok, lab(870000 + t)); break;
                default: b.g.resize(r.u(s.n)); break;
                }
            } catch (std::exception &) {
                ++C.rejectedInPast;
            }
        }
        VertexIndex v = r.u(s.n);
        b.g.removeVertexFromEdgeList(v);
        bool cleared = r.chance(1, 4);
        if (cleared) b.g.clearEdges();
        auto again = b.order;
        for (size_t i = again.size(); i > 1; --i) std::swap(again[i - 1], again[r.u((unsigned)i)]);
        for (auto &e : again)
            if (cleared || e.first == v || e.second == v) b.g.addEdge(e.first, e.second, lab(b.stamp[canon(s.directed, e.first, e.second)]));
    }
    return b;
}

template <class G> std::string labelsMatch(const G &g, const std::map<Edge, uint64_t> &want, bool directed, const char *what) {
    if (!LT<L>::labelled) return "";
    std::ostringstream o;
    unsigned n = (unsigned)g.getSize();
    for (VertexIndex i = 0; i < n; ++i)
        for (VertexIndex j = 0; j < n; ++j) {
            auto it = want.find(canon(directed, i, j));
            if (it == want.end()) continue;
            ++C.labelReads;
            L got = g.getEdgeLabel(i, j, false);
            if (!sameLabel(got, lab(it->second))) {
                o << what << ": label of (" << i << "," << j << ") is " << LT<L>::str(got) << ", expected " << LT<L>::str(lab(it->second));
                return o.str();
            }
            if (it->second != NAN_STAMP && !g.hasEdge(i, j, lab(it->second))) {
                o << what << ": hasEdge(" << i << "," << j << ",label) false";
                return o.str();
            }
        }
    return "";
}

std::string tmpFile(Reporter &R, const char *suffix) {
    std::string d = R.args.workDir.empty() ? std::string("/tmp") : R.args.workDir;
    return d + "/shape-" + std::to_string(getpid()) + suffix;
}
size_t fileSize(const std::string &p) {
    struct stat st;
    return stat(p.c_str(), &st) == 0 ? (size_t)st.st_size : (size_t)-1;
}
size_t countLines(const std::string &p) {
    FILE *f = fopen(p.c_str(), "r");
    if (!f) return (size_t)-1;
    size_t n = 0;
    int c;
    while ((c = fgetc(f)) != EOF)
        if (c == '\n') ++n;
    fclose(f);
    return n;
}

template <class G> std::string writersDefined(Reporter &R, const G &g, size_t edges) {
    try {
        std::string tp = tmpFile(R, ".txt");
        std::function<std::string(const L &)> ts = [](const L &l) { return LT<L>::str(l); };
        io::writeTextEdgeList(g, tp, ts);
        ++C.filesWritten;
        size_t lines = countLines(tp);
        unlink(tp.c_str());
        (void)lines; // what the file contains is C13's business; here the writer only has to be defined on this shape
#if VK_LABEL == 0 || VK_LABEL == 1
        std::string bp = tmpFile(R, ".bin");
        io::writeBinaryEdgeList(g, bp);
        ++C.filesWritten;
        size_t sz = fileSize(bp);
        unlink(bp.c_str());
        size_t rec = 8 + (LT<L>::labelled ? sizeof(L) : 0);
        (void)sz;
        (void)rec; // layout is C14's business
#endif
    } catch (std::exception &ex) {
        return std::string("file-writer-threw: ") + ex.what();
    }
    return "";
}

Expect reversedExpect(const Expect &x) {
    Expect r;
    r.directed = true;
    r.n = x.n;
    for (auto &kv : x.e) r.e[{kv.first.second, kv.first.first}] = kv.second;
    return r;
}
Expect asDirectedExpect(const Expect &x) {
    Expect r;
    r.directed = true;
    r.n = x.n;
    for (auto &kv : x.e) {
        r.e[{kv.first.first, kv.first.second}] = kv.second;
        r.e[{kv.first.second, kv.first.first}] = kv.second;
    }
    return r;
}
Expect asUndirectedExpect(const Expect &x) {
    Expect r;
    r.directed = false;
    r.n = x.n;
    for (auto &kv : x.e) r.e[canon(false, kv.first.first, kv.first.second)] = Expect::Cell();
    return r;
}

std::string obs(const std::string &m) {
    size_t p = m.find_first_of(":(");
    return p == std::string::npos ? m : m.substr(0, p);
}

// ---------------------------------------------------------------- C08
template <class G> void c08(Reporter &R, const std::string &cls, const GraphSpec &s, unsigned variant, uint64_t idx) {
    Rng r = caseRng(R.args.seed, hashStr(cls + "c08"), idx);
    auto b = build<G>(s, variant, r, 11);
    ++C.graphs;
    if (s.edges.empty()) ++C.emptyGraphs;
    if (s.n == 0) ++C.zeroVertex;
    std::string e = checkIteration(b.g, s.edges.size(), C.iterSteps);
    if (!e.empty()) { R.violation(cls + "/edges()/" + obs(e), e + " on " + s.str()); return; }
    e = checkEnumeration(b.g, b.x, C.oc);
    if (!e.empty()) { R.violation(cls + "/enumeration/" + obs(e), e + " on " + s.str()); return; }
    // operations defined by enumerating edges must be DEFINED on every shape (what they return is C01/C02/C09's business)
    try {
        (void)b.g.getAdjacencyMatrix();
        if constexpr (IsDirected<G>::value) {
            (void)b.g.getInDegrees();
            for (VertexIndex v = 0; v < s.n; ++v) (void)b.g.getInDegree(v);
            (void)b.g.getReversedGraph();
            ++C.conversions;
            UG u(b.g);
            ++C.conversions;
        } else {
            (void)b.g.getDegrees();
            (void)b.g.getDirectedGraph();
            ++C.conversions;
        }
    } catch (std::exception &ex) {
        R.violation(cls + "/edge-enumerating-operation/threw", std::string("an operation defined by enumerating edges threw ") + ex.what() + " on " + s.str());
        return;
    }
    e = writersDefined(R, b.g, s.edges.size());
    if (!e.empty()) { R.violation(cls + "/writer/" + obs(e), e + " on " + s.str()); return; }
    // operator<< is defined on every shape as well
    std::ostringstream os;
    os << b.g;
    R.digest(os.str() + snapshot(b.g));
    // enumerate - mutate - enumerate again: traversal must not depend on what an earlier traversal saw
    if (s.n > 0) {
        for (int round = 0; round < 3; ++round) {
            VertexIndex i = r.u(s.n), j = r.u(s.n);
            if (round == 0) i = 0;        // below every vertex that had an edge so far
            if (round == 1) i = s.n - 1;  // above every vertex that had an edge so far
            if (r.chance(1, 2)) std::swap(i, j); // named in either orientation
            Edge k = canon(s.directed, i, j);
            if (b.x.e.count(k)) {
                b.g.removeEdge(i, j);
                b.x.e.erase(k);
            } else {
                b.g.addEdge(i, j, lab(5000 + round));
                b.x.e[k] = Expect::Cell();
            }
            ++C.remutated;
            e = checkIteration(b.g, b.x.e.size(), C.iterSteps);
            if (e.empty()) e = checkEnumeration(b.g, b.x, C.oc);
            if (!e.empty()) { R.violation(cls + "/edges()-after-mutation/" + obs(e), e + " after changing (" + std::to_string(i) + "," + std::to_string(j) + ") on " + s.str()); return; }
        }
    }
}

// ---------------------------------------------------------------- C09
template <class Cont, class T> Cont makeContainer(const std::vector<T> &v) { return Cont(v.begin(), v.end()); }

template <class G, class Cont, class T> std::string ctorCheck(const char *contName, const std::vector<T> &items, bool directed) {
    Cont c = makeContainer<Cont>(items);
    ++C.ctorChecks;
    std::ostringstream o;
    G g(c);
    // expected: 1+largest index vertices, edges added one at a time in the container's iteration order
    unsigned n = 0;
    bool any = false;
    for (auto &it : c) {
        any = true;
        n = std::max(n, std::max((unsigned)std::get<0>(it), (unsigned)std::get<1>(it)) + 1);
    }
    if (!any) n = 0;
    G want(n);
    Expect x;
    x.directed = directed;
    x.n = n;
    std::map<Edge, L> firstLabel;
    for (auto &it : c) {
        VertexIndex a = std::get<0>(it), b = std::get<1>(it);
        if constexpr (std::tuple_size<T>::value == 3) {
            want.addEdge(a, b, std::get<2>(it));
            if (!firstLabel.count(canon(directed, a, b))) firstLabel[canon(directed, a, b)] = std::get<2>(it);
        } else {
            want.addEdge(a, b);
        }
        x.e[canon(directed, a, b)] = Expect::Cell();
    }
    if (g.getSize() != n) {
        o << "constructor from " << contName << ": size " << g.getSize() << ", expected " << n;
        return o.str();
    }
    std::string e = checkEdgesOnly(g, x, C.oc);
    if (!e.empty()) return std::string("constructor from ") + contName + ": " + e;
    for (auto &kv : firstLabel) {
        ++C.labelReads;
        if (!(g.getEdgeLabel(kv.first.first, kv.first.second, false) == kv.second)) {
            o << "constructor from " << contName << ": label of (" << kv.first.first << "," << kv.first.second << ") differs from adding one at a time";
            return o.str();
        }
    }
    if (!(g == want) || !(want == g) || (g != want)) return std::string("constructor from ") + contName + ": result != graph built by adding the edges one at a time";
    return "";
}

template <class G> std::string allCtors(const Built<G> &b, Rng &r, bool directed) {
    std::string e;
    if constexpr (!LT<L>::labelled) {
        std::vector<Edge> items = b.order;
        if (!items.empty() && r.chance(1, 2)) items.push_back(items[r.u((unsigned)items.size())]); // a repeated entry
        if ((e = ctorCheck<G, std::vector<Edge>>("std::vector", items, directed)) != "") return e;
        if ((e = ctorCheck<G, std::list<Edge>>("std::list", items, directed)) != "") return e;
        if ((e = ctorCheck<G, std::deque<Edge>>("std::deque", items, directed)) != "") return e;
        if ((e = ctorCheck<G, std::forward_list<Edge>>("std::forward_list", items, directed)) != "") return e;
        if ((e = ctorCheck<G, std::set<Edge>>("std::set", items, directed)) != "") return e;
        if ((e = ctorCheck<G, std::multiset<Edge>>("std::multiset", items, directed)) != "") return e;
        // the unlabelled classes also accept containers of (i, j, NoLabel) entries
        using T = LabeledEdge<L>;
        std::vector<T> litems;
        for (auto &ed : items) litems.push_back(T{ed.first, ed.second, L()});
        if (!directed && !litems.empty() && r.chance(1, 2)) { // the same pair once more, the other way round
            T rev = litems[r.u((unsigned)litems.size())];
            std::swap(std::get<0>(rev), std::get<1>(rev));
            litems.push_back(rev);
        }
        if ((e = ctorCheck<G, std::vector<T>>("std::vector of (i,j,NoLabel)", litems, directed)) != "") return e;
        if ((e = ctorCheck<G, std::list<T>>("std::list of (i,j,NoLabel)", litems, directed)) != "") return e;
        if ((e = ctorCheck<G, std::deque<T>>("std::deque of (i,j,NoLabel)", litems, directed)) != "") return e;
        if ((e = ctorCheck<G, std::forward_list<T>>("std::forward_list of (i,j,NoLabel)", litems, directed)) != "") return e;
    } else {
        using T = LabeledEdge<L>;
        std::vector<T> items;
        for (auto &ed : b.order) items.push_back(T{ed.first, ed.second, lab(b.stamp.at(canon(directed, ed.first, ed.second)))});
        if (!items.empty() && r.chance(1, 2)) {
            T dup = items[r.u((unsigned)items.size())];
            std::get<2>(dup) = lab(777777 + r.u(100)); // same pair, another label: the first one added must win
            items.push_back(dup);
        }
        if ((e = ctorCheck<G, std::vector<T>>("std::vector", items, directed)) != "") return e;
        if ((e = ctorCheck<G, std::list<T>>("std::list", items, directed)) != "") return e;
        if ((e = ctorCheck<G, std::deque<T>>("std::deque", items, directed)) != "") return e;
        if ((e = ctorCheck<G, std::forward_list<T>>("std::forward_list", items, directed)) != "") return e;
        if ((e = ctorCheck<G, std::set<T>>("std::set", items, directed)) != "") return e;
        if ((e = ctorCheck<G, std::multiset<T>>("std::multiset", items, directed)) != "") return e;
    }
    return "";
}

template <class G> bool eq3(const G &a, const G &b) { return (a == b) && (b == a) && !(a != b) && !(b != a); }

template <class G> void c09(Reporter &R, const std::string &cls, const GraphSpec &s, unsigned variant, uint64_t idx) {
    Rng r = caseRng(R.args.seed, hashStr(cls + "c09"), idx);
    auto b = build<G>(s, variant, r, 23);
    ++C.graphs;
    std::string e;
    try {
        if constexpr (IsDirected<G>::value) {
            // reversal
            auto rev = b.g.getReversedGraph();
            ++C.conversions;
            G want(s.n);
            std::map<Edge, uint64_t> rs;
            for (auto &kv : b.stamp) {
                want.addEdge(kv.first.second, kv.first.first, lab(kv.second));
                rs[{kv.first.second, kv.first.first}] = kv.second;
            }
            e = checkEdgesOnly(rev, reversedExpect(b.x), C.oc);
            if (e.empty()) e = labelsMatch(rev, rs, true, "getReversedGraph");
            if (e.empty() && !eq3(rev, want)) e = "getReversedGraph: result != independently built reversed graph";
            if (e.empty() && !eq3(rev.getReversedGraph(), b.g)) e = "getReversedGraph: reversing twice does not give back an equal graph";
            if (!e.empty()) { R.violation(cls + "/getReversedGraph/" + obs(e), e + " on " + s.str()); return; }
            // undirected from directed
            UG u(b.g);
            ++C.conversions;
            e = checkEdgesOnly(u, asUndirectedExpect(b.x), C.oc);
            if (e.empty() && LT<L>::labelled)
                for (auto &kv : b.x.e) {
                    VertexIndex i = kv.first.first, j = kv.first.second;
                    L got = u.getEdgeLabel(i, j, false);
                    ++C.labelReads;
                    bool ok = got == lab(b.stamp.at({i, j}));
                    auto back = b.stamp.find({j, i});
                    if (back != b.stamp.end() && got == lab(back->second)) ok = true;
                    if (!ok) {
                        e = "undirected-from-directed: label of {" + std::to_string(i) + "," + std::to_string(j) + "} is none of the directed labels between them";
                        break;
                    }
                }
            if (!e.empty()) { R.violation(cls + "/undirected-from-directed/" + obs(e), e + " on " + s.str()); return; }
        } else {
            auto d = b.g.getDirectedGraph();
            ++C.conversions;
            LabeledDirectedGraph<L> want(s.n);
            std::map<Edge, uint64_t> ds;
            for (auto &kv : b.stamp) {
                want.addEdge(kv.first.first, kv.first.second, lab(kv.second));
                want.addEdge(kv.first.second, kv.first.first, lab(kv.second));
                ds[{kv.first.first, kv.first.second}] = kv.second;
                ds[{kv.first.second, kv.first.first}] = kv.second;
            }
            e = checkEdgesOnly(d, asDirectedExpect(b.x), C.oc);
            if (e.empty()) e = labelsMatch(d, ds, true, "getDirectedGraph");
            if (e.empty() && !eq3(d, want)) e = "getDirectedGraph: result != independently built directed graph";
            if (e.empty()) {
                UG back(d);
                ++C.conversions;
                if (!eq3(back, b.g)) e = "getDirectedGraph: undirected -> directed -> undirected is not the identity";
            }
            if (!e.empty()) { R.violation(cls + "/getDirectedGraph/" + obs(e), e + " on " + s.str()); return; }
        }
        e = allCtors<G>(b, r, s.directed);
        if (!e.empty()) { R.violation(cls + "/edge-list-constructor/" + obs(e.substr(e.find(": ") == std::string::npos ? 0 : e.find(": ") + 2)), e + " on " + s.str()); return; }
        // copies
        {
            ++C.copies;
            G c(b.g);
            G a(0);
            a = b.g;
            std::string before = snapshot(b.g);
            if (!eq3(c, b.g) || !eq3(a, b.g)) e = "copy: copy-constructed / assigned graph != source";
            if (e.empty()) {
                if (s.n > 0 && r.chance(1, 2)) {
                    VertexIndex ca = r.u(s.n), cb = r.u(s.n);
                    c.addEdge(ca, cb, lab(424242), true);
                }
                else c.resize(s.n + 1);
                a.clearEdges();
                a.resize(s.n + 2);
                if (snapshot(b.g) != before) e = "copy: source changed when its copy was mutated";
                else if (eq3(c, b.g)) e = "copy: mutated copy still == source";
            }
            if (e.empty()) e = labelsMatch(b.g, b.stamp, s.directed, "copy-source");
            if (e.empty()) {
                // assignment onto graphs that already hold something else, from the source itself and from a temporary copy of it,
                // and construction from a temporary: each must be the source's equal, observer by observer
                G t1(3);
                t1.addEdge(0, 1, lab(5));
                t1.addEdge(2, 2, lab(6));
                G t2(t1);
                t1 = b.g;
                t2 = G(b.g);
                G scratch(b.g);
                G t3(std::move(scratch));
                ++C.assignments;
                const G *all[] = {&t1, &t2, &t3};
                const char *how[] = {"assigned over a graph with other edges", "assigned from a temporary over a graph with other edges", "constructed from a temporary"};
                for (int k = 0; k < 3 && e.empty(); ++k) {
                    if (!eq3(*all[k], b.g)) e = std::string("copy: graph ") + how[k] + " != source";
                    if (e.empty()) e = checkEdgesOnly(*all[k], b.x, C.oc);
                    if (e.empty()) e = labelsMatch(*all[k], b.stamp, s.directed, how[k]);
                    if (!e.empty() && e.find("copy:") != 0) e = std::string("copy: graph ") + how[k] + ": " + e;
                }
            }
            if (!e.empty()) { R.violation(cls + "/copy/" + obs(e), e + " on " + s.str()); return; }
        }
    } catch (std::exception &ex) {
        R.violation(cls + "/conversion/threw", std::string("threw ") + ex.what() + " on " + s.str());
    }
}

// ---------------------------------------------------------------- C10
template <class G> void c10(Reporter &R, const std::string &cls, const GraphSpec &s, unsigned variant, uint64_t idx) {
    Rng r = caseRng(R.args.seed, hashStr(cls + "c10"), idx);
    bool dupSource = variant == 5;
    auto b = build<G>(s, dupSource ? 2 : variant, r, 37, true);
    if (dupSource) {
        // a graph that carries forced duplicates is a graph too (C16): the induced subgraph connects exactly the pairs of S that
        // the source connects. How many copies the subgraph keeps is not stated, so only the set of pairs and the labels are held
        ++C.dupSources;
        // half of the time the copies follow their original at once (they then sit in the middle of the neighbour lists, before
        // edges added later), otherwise they are appended when all edges are in
        bool atOnce = r.chance(1, 2);
        if (atOnce) b.g = G(s.n);
        for (auto &e : b.order) {
            L l = lab(b.stamp[canon(s.directed, e.first, e.second)]);
            if (atOnce) b.g.addEdge(e.first, e.second, l);
            if (r.chance(1, 2))
                for (unsigned c = 0, k = 1 + r.u(2); c < k; ++c) b.g.addEdge(e.first, e.second, l, true);
        }
    }
    auto sameSet = [&](const G &got, const Expect &want) -> std::string {
        std::ostringstream o;
        if (got.getSize() != want.n) {
            o << "getSize: expected " << want.n << " got " << got.getSize();
            return o.str();
        }
        for (VertexIndex i = 0; i < want.n; ++i)
            for (VertexIndex j = 0; j < want.n; ++j) {
                bool w = want.e.count(canon(want.directed, i, j)) != 0;
                if (got.hasEdge(i, j) != w) {
                    o << "hasEdge(" << i << "," << j << "): expected " << w;
                    return o.str();
                }
            }
        return "";
    };
    ++C.graphs;
    unsigned n = s.n;
    // up to 7 vertices: ALL 2^n subsets; larger graphs: 30 seeded subsets of varied density (plus the empty and the full set)
    uint64_t rounds = n <= 7 ? (1ULL << n) : 32;
    for (uint64_t mask = 0; mask < rounds; ++mask) {
        std::unordered_set<VertexIndex> S;
        // insertion order into the set varies the iteration order of the unordered_set
        std::vector<VertexIndex> members;
        if (n <= 7) {
            for (unsigned v = 0; v < n; ++v)
                if (mask >> v & 1) members.push_back(v);
        } else if (mask == 1) {
            for (unsigned v = 0; v < n; ++v) members.push_back(v);
        } else if (mask > 1) {
            unsigned num = 1 + r.u(8), den = 9;
            for (unsigned v = 0; v < n; ++v)
                if (r.chance(num, den)) members.push_back(v);
        }
        if (mask % 7 == 3 && n > 0) {
            // a rejected call in between (a vertex outside the graph after some inside it) must leave no trace on later calls
            std::unordered_set<VertexIndex> bad;
            bad.insert(r.u(n));
            bad.insert(n + r.u(40));
            bad.insert(r.u(n));
            try { (void)alg::getSubgraphWithRemap(b.g, bad); } catch (std::out_of_range &) {}
            try { (void)alg::getSubgraph(b.g, bad); } catch (std::out_of_range &) {}
            ++C.rejectedInBetween;
        }
        if (variant >= 1)
            for (size_t i = members.size(); i > 1; --i) std::swap(members[i - 1], members[r.u((unsigned)i)]);
        for (auto v : members) S.insert(v);
        ++C.subsets;
        Expect ind;
        ind.directed = s.directed;
        ind.n = n;
        std::map<Edge, uint64_t> indStamp;
        for (auto &kv : b.stamp)
            if (S.count(kv.first.first) && S.count(kv.first.second)) {
                ind.e[kv.first] = Expect::Cell();
                indStamp[kv.first] = kv.second;
            }
        std::string where = " for S=" + vecStr(members) + " on " + s.str();
        try {
            G sub = alg::getSubgraph(b.g, S);
            std::string e = dupSource ? sameSet(sub, ind) : checkEdgesOnly(sub, ind, C.oc);
            if (e.empty()) e = labelsMatch(sub, indStamp, s.directed, "getSubgraph");
            if (!e.empty()) { R.violation(cls + "/getSubgraph/" + obs(e), e + where); return; }
            if (mask % 5 == 2 && n > 1) {
                // a subgraph is a graph: extracting from it gives the subgraph induced by the intersection
                std::unordered_set<VertexIndex> S2;
                for (unsigned v2 = 0; v2 < n; ++v2)
                    if (r.chance(2, 3)) S2.insert(v2);
                Expect ind2;
                ind2.directed = s.directed;
                ind2.n = n;
                std::map<Edge, uint64_t> ind2Stamp;
                for (auto &kv : indStamp)
                    if (S2.count(kv.first.first) && S2.count(kv.first.second)) {
                        ind2.e[kv.first] = Expect::Cell();
                        ind2Stamp[kv.first] = kv.second;
                    }
                G sub2 = alg::getSubgraph(sub, S2);
                ++C.subOfSub;
                e = dupSource ? sameSet(sub2, ind2) : checkEdgesOnly(sub2, ind2, C.oc);
                if (e.empty()) e = labelsMatch(sub2, ind2Stamp, s.directed, "getSubgraph-of-getSubgraph");
                if (!e.empty()) { R.violation(cls + "/getSubgraph/of-a-subgraph/" + obs(e), e + where); return; }
            }
            auto pr = alg::getSubgraphWithRemap(b.g, S);
            ++C.remapChecks;
            G &rg = pr.first;
            auto &mp = pr.second;
            std::ostringstream o;
            if (rg.getSize() != S.size()) o << "getSubgraphWithRemap: graph has " << rg.getSize() << " vertices, |S|=" << S.size();
            else if (mp.size() != S.size()) o << "getSubgraphWithRemap: map has " << mp.size() << " entries, |S|=" << S.size();
            else {
                std::set<VertexIndex> image;
                for (auto &kv : mp) {
                    if (!S.count(kv.first)) { o << "getSubgraphWithRemap: map has key " << kv.first << " outside S"; break; }
                    if (kv.second >= S.size()) { o << "getSubgraphWithRemap: map sends " << kv.first << " to " << kv.second << " >= |S|"; break; }
                    if (!image.insert(kv.second).second) { o << "getSubgraphWithRemap: map is not injective at " << kv.second; break; }
                }
            }
            if (!o.str().empty()) { R.violation(cls + "/getSubgraphWithRemap/remap", o.str() + where); return; }
            // pull back through the map
            Expect pulled;
            pulled.directed = s.directed;
            pulled.n = (unsigned)S.size();
            std::map<Edge, uint64_t> pulledStamp;
            for (auto &kv : indStamp) {
                Edge k = canon(s.directed, mp.at(kv.first.first), mp.at(kv.first.second));
                pulled.e[k] = Expect::Cell();
                pulledStamp[k] = kv.second;
            }
            e = dupSource ? sameSet(rg, pulled) : checkEdgesOnly(rg, pulled, C.oc);
            if (e.empty()) e = labelsMatch(rg, pulledStamp, s.directed, "getSubgraphWithRemap");
            if (!e.empty()) { R.violation(cls + "/getSubgraphWithRemap/" + obs(e), e + where); return; }
        } catch (std::exception &ex) {
            R.violation(cls + "/subgraph/threw", std::string("threw ") + ex.what() + where);
            return;
        }
    }
}

void flush(Reporter &R) {
    C.oc.flush(R);
    R.count("graphs_built", C.graphs);
    R.count("enumerate_mutate_enumerate_rounds", C.remutated);
    R.count("rejected_subgraph_calls_in_between", C.rejectedInBetween);
    R.count("graphs_with_a_past_of_removals_and_rebuilds", C.detours);
    R.count("rejected_calls_in_the_past_of_a_graph", C.rejectedInPast);
    R.count("assignments_over_a_non_empty_graph_and_from_temporaries", C.assignments);
    R.count("source_graphs_carrying_forced_duplicates", C.dupSources);
    R.count("subgraph_of_subgraph_checks", C.subOfSub);
    R.count("edges_labelled_NaN", C.nanLabels);
    R.count("edge_iteration_steps", C.iterSteps);
    R.count("conversions_checked", C.conversions);
    R.count("constructor_checks", C.ctorChecks);
    R.count("copy_checks", C.copies);
    R.count("subsets_checked", C.subsets);
    R.count("remap_bijection_checks", C.remapChecks);
    R.count("label_reads", C.labelReads);
    R.count("files_written", C.filesWritten);
    R.count("graphs_without_edges", C.emptyGraphs);
    R.count("graphs_with_zero_vertices", C.zeroVertex);
    C = Counters();
}

template <class G> void reg(const char *base, bool directed, bool flusher) {
    std::string cls = std::string(base) + "<" + LT<L>::name() + ">";
    static RegisterShape rs({cls, directed, [cls, flusher](Reporter &R, const std::string &prop, const GraphSpec &s, unsigned variant, uint64_t idx) {
                                 if (idx == (uint64_t)-1) {
                                     if (flusher) flush(R);
                                     return;
                                 }
                                 if (VK_LABEL == 3 && prop != "C10") return; // the double kind exists for C10's NaN labels only
                                 if (prop == "C08") c08<G>(R, cls, s, variant, idx);
                                 else if (prop == "C09") c09<G>(R, cls, s, variant, idx);
                                 else if (prop == "C10") c10<G>(R, cls, s, variant, idx);
                             }});
}
struct Init {
    Init() {
        reg<DG>("LabeledDirectedGraph", true, true);
        reg<UG>("LabeledUndirectedGraph", false, false);
    }
} init;
} // namespace
} // namespace vf
