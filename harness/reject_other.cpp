// C07 cells for the multigraph and weighted classes.
#include "reject.hpp"

namespace vf {
namespace {
using namespace BaseGraph;
namespace alg = BaseGraph::algorithms;

RejectCounters rc;

unsigned stateSize(Rng &r, unsigned variant) {
    switch (variant) {
    case 0: return 0;
    case 1:
    case 2: return 1;
    case 3: return 3;
    case 8: return 40;
    case 9: return 24;
    default: return 2 + r.u(5);
    }
}

// ---- multigraphs
template <class G> void buildMulti(G &g, Rng &r, unsigned variant) {
    unsigned n = stateSize(r, variant);
    g.resize(n);
    if (variant == 2) g.addMultiedge(0, 0, 2);
    if (variant == 8) {
        for (unsigned t = 0; t < n; ++t)
            if (t % 8 != 3) g.addMultiedge(5, t, 1 + t % 3);
    } else if (variant == 9) {
        for (unsigned a = 0; a < n; ++a)
            for (unsigned b = 0; b < n; ++b)
                if (r.chance(1, 2)) g.addMultiedge(a, b, 1 + (a + b) % 4);
    } else if (variant >= 4) {
        unsigned m = 1 + r.u(n * 2);
        for (unsigned t = 0; t < m; ++t) {
            VertexIndex i = r.u(n), j = r.chance(1, 6) ? i : r.u(n);
            g.addMultiedge(i, j, 1 + r.u(3));
        }
        if (variant == 7) g.removeVertexFromEdgeList(r.u(n));
    }
}
template <class G> void mutateMulti(G &g, Rng &r) {
    unsigned n = (unsigned)g.getSize();
    if (!n) return;
    VertexIndex i = r.u(n), j = r.u(n);
    if (r.chance(2, 3)) g.addMultiedge(i, j, 1 + r.u(3));
    else g.removeMultiedge(i, j, 1 + r.u(2));
}
template <class G> void multiCells(std::vector<Cell<G>> &c, std::vector<IaCell<G>> &ia) {
    c.push_back({"addEdge(i,j,force)", 2, 3, [](G &g, VertexIndex a, VertexIndex b, unsigned f) {
                     if (f == 2) g.addEdge(a, b);
                     else g.addEdge(a, b, f != 0);
                 }});
    c.push_back({"addMultiedge(i,j,k,force)", 2, 4, [](G &g, VertexIndex a, VertexIndex b, unsigned f) { g.addMultiedge(a, b, (f & 2) ? 0 : 2, (f & 1) != 0); }});
    c.push_back({"removeEdge(i,j)", 2, 1, [](G &g, VertexIndex a, VertexIndex b, unsigned) { g.removeEdge(a, b); }});
    c.push_back({"removeMultiedge(i,j,k)", 2, 2, [](G &g, VertexIndex a, VertexIndex b, unsigned f) { g.removeMultiedge(a, b, f ? 0 : 2); }});
    c.push_back({"hasEdge(i,j)", 2, 1, [](G &g, VertexIndex a, VertexIndex b, unsigned) { (void)g.hasEdge(a, b); }});
    c.push_back({"getEdgeMultiplicity(i,j)", 2, 1, [](G &g, VertexIndex a, VertexIndex b, unsigned) { (void)g.getEdgeMultiplicity(a, b); }});
    c.push_back({"setEdgeMultiplicity(i,j,k)", 2, 2, [](G &g, VertexIndex a, VertexIndex b, unsigned f) { g.setEdgeMultiplicity(a, b, f ? 0 : 3); }});
    c.push_back({"removeVertexFromEdgeList(v)", 1, 1, [](G &g, VertexIndex a, VertexIndex, unsigned) { g.removeVertexFromEdgeList(a); }});
    c.push_back({"getOutNeighbours(v)", 1, 1, [](G &g, VertexIndex a, VertexIndex, unsigned) { (void)g.getOutNeighbours(a); }});
    ia.push_back({"resize(smaller)", 2, 2, [](G &g, VertexIndex, VertexIndex, unsigned f) { g.resize(f ? 0 : g.getSize() - 1); }});
}

// ---- weighted
template <class G> void buildWeighted(G &g, Rng &r, unsigned variant) {
    unsigned n = stateSize(r, variant);
    g.resize(n);
    if (variant == 2) g.addEdge(0, 0, 2.5);
    if (variant == 8) {
        for (unsigned t = 0; t < n; ++t)
            if (t % 8 != 3) g.addEdge(5, t, (double)(1 + t % 7) / 2.0);
    } else if (variant == 9) {
        for (unsigned a = 0; a < n; ++a)
            for (unsigned b = 0; b < n; ++b)
                if (r.chance(1, 2)) g.addEdge(a, b, (double)(1 + (a + b) % 9) / 4.0);
    } else if (variant >= 4) {
        unsigned m = 1 + r.u(n * 2);
        for (unsigned t = 0; t < m; ++t) {
            VertexIndex i = r.u(n), j = r.chance(1, 6) ? i : r.u(n);
            g.addEdge(i, j, (double)(1 + r.u(40)) / 4.0);
        }
        if (variant == 7) g.removeVertexFromEdgeList(r.u(n));
    }
}
template <class G> void mutateWeighted(G &g, Rng &r) {
    unsigned n = (unsigned)g.getSize();
    if (!n) return;
    VertexIndex i = r.u(n), j = r.u(n);
    if (r.chance(2, 3)) g.setEdgeWeight(i, j, (double)(1 + r.u(40)) / 4.0);
    else g.removeEdge(i, j);
}
template <class G> void weightedCells(std::vector<Cell<G>> &c, std::vector<IaCell<G>> &ia) {
    c.push_back({"addEdge(i,j,w,force)", 2, 7, [](G &g, VertexIndex a, VertexIndex b, unsigned f) {
                     // flags 3..6: the same with weights that swamp the running total (a rejected call must not leave rounding behind)
                     static const double big[] = {1e25, 1e300, -1e300, 1.7976931348623157e308};
                     double w = f >= 3 ? big[f - 3] : 1.5;
                     if (f == 2) g.addEdge(a, b, w);
                     else g.addEdge(a, b, w, f == 0 ? false : true);
                 }});
    c.push_back({"removeEdge(i,j)", 2, 1, [](G &g, VertexIndex a, VertexIndex b, unsigned) { g.removeEdge(a, b); }});
    c.push_back({"hasEdge(i,j)", 2, 1, [](G &g, VertexIndex a, VertexIndex b, unsigned) { (void)g.hasEdge(a, b); }});
    c.push_back({"getEdgeWeight(i,j,throwIfInexistent)", 2, 3, [](G &g, VertexIndex a, VertexIndex b, unsigned f) {
                     if (f == 2) (void)g.getEdgeWeight(a, b);
                     else (void)g.getEdgeWeight(a, b, f != 0);
                 }});
    c.push_back({"setEdgeWeight(i,j,w)", 2, 3, [](G &g, VertexIndex a, VertexIndex b, unsigned f) { g.setEdgeWeight(a, b, f == 0 ? 2.25 : f == 1 ? 1e300 : -1e25); }});
    c.push_back({"removeVertexFromEdgeList(v)", 1, 1, [](G &g, VertexIndex a, VertexIndex, unsigned) { g.removeVertexFromEdgeList(a); }});
    c.push_back({"getOutNeighbours(v)", 1, 1, [](G &g, VertexIndex a, VertexIndex, unsigned) { (void)g.getOutNeighbours(a); }});
    c.push_back({"findGeodesicsDijkstra(g,v)", 1, 1, [](G &g, VertexIndex a, VertexIndex, unsigned) { (void)alg::findGeodesicsDijkstra(g, a); }});
    ia.push_back({"resize(smaller)", 2, 2, [](G &g, VertexIndex, VertexIndex, unsigned f) { g.resize(f ? 0 : g.getSize() - 1); }});
    ia.push_back({"getEdgeWeight(missing-edge)", 2, 1, [](G &g, VertexIndex a, VertexIndex b, unsigned f) {
                      if (f) (void)g.getEdgeWeight(a, b, true);
                      else (void)g.getEdgeWeight(a, b);
                  }});
}

template <class G, class B, class M>
void reg(const std::string &cls, std::vector<Cell<G>> &c, std::vector<IaCell<G>> &ia, B build, M mutate, bool flusher) {
    static RegisterReject r({cls, [cls, &c, &ia, build, mutate, flusher](Reporter &R, uint64_t sub, bool isolate) {
                                 if (sub == (uint64_t)-1) {
                                     if (flusher) flushReject(R, rc);
                                     return;
                                 }
                                 runRejectCase<G>(R, cls, c, ia, build, mutate, sub, isolate, rc);
                             }});
}

struct Init {
    Init() {
        {
            using G = DirectedMultigraph;
            static std::vector<Cell<G>> c;
            static std::vector<IaCell<G>> ia;
            multiCells<G>(c, ia);
            c.push_back({"addReciprocalEdge(i,j,force)", 2, 3, [](G &g, VertexIndex a, VertexIndex b, unsigned f) {
                             if (f == 2) g.addReciprocalEdge(a, b);
                             else g.addReciprocalEdge(a, b, f != 0);
                         }});
            c.push_back({"addReciprocalMultiedge(i,j,k,force)", 2, 2, [](G &g, VertexIndex a, VertexIndex b, unsigned f) { g.addReciprocalMultiedge(a, b, 2, f != 0); }});
            c.push_back({"getOutDegree(v)", 1, 1, [](G &g, VertexIndex a, VertexIndex, unsigned) { (void)g.getOutDegree(a); }});
            c.push_back({"getInDegree(v)", 1, 1, [](G &g, VertexIndex a, VertexIndex, unsigned) { (void)g.getInDegree(a); }});
            reg<G>("DirectedMultigraph", c, ia, buildMulti<G>, mutateMulti<G>, true);
        }
        {
            using G = UndirectedMultigraph;
            static std::vector<Cell<G>> c;
            static std::vector<IaCell<G>> ia;
            multiCells<G>(c, ia);
            c.push_back({"getDegree(v,countSelfLoopsTwice)", 1, 3, [](G &g, VertexIndex a, VertexIndex, unsigned f) {
                             if (f == 2) (void)g.getDegree(a);
                             else (void)g.getDegree(a, f != 0);
                         }});
            reg<G>("UndirectedMultigraph", c, ia, buildMulti<G>, mutateMulti<G>, false);
        }
        {
            using G = DirectedWeightedGraph;
            static std::vector<Cell<G>> c;
            static std::vector<IaCell<G>> ia;
            weightedCells<G>(c, ia);
            c.push_back({"addReciprocalEdge(i,j,force)", 2, 3, [](G &g, VertexIndex a, VertexIndex b, unsigned f) {
                             if (f == 2) g.addReciprocalEdge(a, b);
                             else g.addReciprocalEdge(a, b, f != 0);
                         }});
            c.push_back({"getOutDegree(v)", 1, 1, [](G &g, VertexIndex a, VertexIndex, unsigned) { (void)g.getOutDegree(a); }});
            c.push_back({"getInDegree(v)", 1, 1, [](G &g, VertexIndex a, VertexIndex, unsigned) { (void)g.getInDegree(a); }});
            reg<G>("DirectedWeightedGraph", c, ia, buildWeighted<G>, mutateWeighted<G>, false);
        }
        {
            using G = UndirectedWeightedGraph;
            static std::vector<Cell<G>> c;
            static std::vector<IaCell<G>> ia;
            weightedCells<G>(c, ia);
            c.push_back({"getDegree(v,countSelfLoopsTwice)", 1, 3, [](G &g, VertexIndex a, VertexIndex, unsigned f) {
                             if (f == 2) (void)g.getDegree(a);
                             else (void)g.getDegree(a, f != 0);
                         }});
            reg<G>("UndirectedWeightedGraph", c, ia, buildWeighted<G>, mutateWeighted<G>, false);
        }
    }
} init;
} // namespace
} // namespace vf
