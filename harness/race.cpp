// C18: concurrent const use of a shared graph under ThreadSanitizer. For each
// graph class a shared object is built, the single-threaded digest of every
// const entry point is recorded, then T threads run seeded random sequences of
// those entry points. Oracles: zero TSan reports (halt_on_error) and every
// per-thread result equal to the baseline. The harness synchronises with
// RELAXED atomics only: an acquire/release here would add happens-before edges
// and hide exactly the races being hunted.
#include "common.hpp"
#include "labels.hpp"
#include "observe.hpp"

#include "BaseGraph/algorithms/paths.hpp"
#include "BaseGraph/algorithms/topology.hpp"
#include "BaseGraph/fileio.hpp"

#include <atomic>
#include <thread>

namespace {
using namespace vf;
using namespace BaseGraph;
namespace alg = BaseGraph::algorithms;

uint64_t hv(uint64_t h, uint64_t v) { return mix64(h, v); }
template <class V> uint64_t hvec(uint64_t h, const V &v) {
    for (auto x : v) h = mix64(h, (uint64_t)x);
    return mix64(h, 0xabc);
}
uint64_t hdouble(uint64_t h, double d) {
    uint64_t b;
    memcpy(&b, &d, 8);
    return mix64(h, b);
}

template <class G> struct Op {
    std::string name;
    std::function<uint64_t(const G &, const G &, int tid, const std::string &dir)> run;
};

template <class G> uint64_t digestStructure(const G &g) {
    uint64_t h = 1;
    size_t n = g.getSize();
    h = hv(h, n);
    h = hv(h, g.getEdgeNumber());
    for (VertexIndex i = 0; i < n; ++i) h = hvec(h, g.getOutNeighbours(i));
    for (VertexIndex i = 0; i < n; ++i)
        for (VertexIndex j = 0; j < n; ++j) h = hv(h, g.hasEdge(i, j));
    return h;
}
template <class G> uint64_t digestEdges(const G &g) {
    uint64_t h = 2;
    for (auto e : g.edges()) h = hv(h, ((uint64_t)e.first << 32) | e.second);
    for (VertexIndex v : g) h = hv(h, v);
    return h;
}
template <class G> uint64_t digestStream(const G &g) {
    std::ostringstream os;
    os << g;
    return hashStr(os.str());
}
uint64_t fileDigest(const std::string &p) {
    FILE *f = fopen(p.c_str(), "rb");
    if (!f) return 0xdead;
    uint64_t h = 3;
    char b[4096];
    size_t n;
    while ((n = fread(b, 1, sizeof b, f)) > 0) h = hashBytes(b, n, h);
    fclose(f);
    unlink(p.c_str());
    return h;
}

// ---- op tables -------------------------------------------------------------
template <class G, class L> void simpleOps(std::vector<Op<G>> &ops) {
    constexpr bool directed = IsDirected<G>::value;
    ops.push_back({"observers", [](const G &g, const G &, int, const std::string &) { return digestStructure(g); }});
    ops.push_back({"vertex+edge iteration", [](const G &g, const G &, int, const std::string &) { return digestEdges(g); }});
    ops.push_back({"labels", [](const G &g, const G &, int, const std::string &) {
                       uint64_t h = 4;
                       size_t n = g.getSize();
                       for (VertexIndex i = 0; i < n; ++i)
                           for (VertexIndex j = 0; j < n; ++j) {
                               h = hashStr(LT<L>::str(g.getEdgeLabel(i, j, false)), h);
                               h = hv(h, g.hasEdge(i, j, LT<L>::make(3)));
                               try {
                                   (void)g.getEdgeLabel(i, j);
                               } catch (std::invalid_argument &) {
                                   h = hv(h, 77);
                               }
                           }
                       return h;
                   }});
    ops.push_back({"operator==", [](const G &g, const G &o, int, const std::string &) { return (uint64_t)((g == o) * 2 + (g != o) + 4 * (g == g)); }});
    ops.push_back({"copy", [](const G &g, const G &, int, const std::string &) {
                       G c(g);
                       G d(0);
                       d = g;
                       return hv(digestStructure(c), digestEdges(d));
                   }});
    ops.push_back({"operator<<", [](const G &g, const G &, int, const std::string &) { return digestStream(g); }});
    if constexpr (directed) {
        ops.push_back({"degrees+matrix", [](const G &g, const G &, int, const std::string &) {
                           uint64_t h = hvec(hvec(5, g.getInDegrees()), g.getOutDegrees());
                           for (VertexIndex i = 0; i < g.getSize(); ++i) h = hv(hv(h, g.getInDegree(i)), g.getOutDegree(i));
                           for (auto &row : g.getAdjacencyMatrix()) h = hvec(h, row);
                           return h;
                       }});
        ops.push_back({"getReversedGraph", [](const G &g, const G &, int, const std::string &) { return digestStructure(g.getReversedGraph()); }});
        ops.push_back({"undirected-from-directed", [](const G &g, const G &, int, const std::string &) { return digestStructure(LabeledUndirectedGraph<L>(g)); }});
    } else {
        ops.push_back({"degrees+matrix", [](const G &g, const G &, int, const std::string &) {
                           uint64_t h = hvec(hvec(5, g.getDegrees(true)), g.getDegrees(false));
                           for (VertexIndex i = 0; i < g.getSize(); ++i) h = hv(hv(h, g.getDegree(i)), g.getNeighbours(i).size());
                           for (auto &row : g.getAdjacencyMatrix()) h = hvec(h, row);
                           for (auto &row : g.getAdjacencyMatrix(false)) h = hvec(h, row);
                           return h;
                       }});
        ops.push_back({"getDirectedGraph", [](const G &g, const G &, int, const std::string &) { return digestStructure(g.getDirectedGraph()); }});
    }
    ops.push_back({"getSubgraph", [](const G &g, const G &, int tid, const std::string &) {
                       std::unordered_set<VertexIndex> s;
                       for (VertexIndex v = 0; v < g.getSize(); v += 2) s.insert(v);
                       (void)tid;
                       return digestStructure(alg::getSubgraph(g, s));
                   }});
    ops.push_back({"getSubgraphWithRemap", [](const G &g, const G &, int, const std::string &) {
                       std::unordered_set<VertexIndex> s;
                       for (VertexIndex v = 1; v < g.getSize(); v += 2) s.insert(v);
                       auto pr = alg::getSubgraphWithRemap(g, s);
                       return hv(pr.first.getEdgeNumber(), pr.second.size());
                   }});
    ops.push_back({"findVertexPredecessors", [](const G &g, const G &, int, const std::string &) {
                       uint64_t h = 6;
                       for (VertexIndex s = 0; s < g.getSize(); s += 3) {
                           auto p = alg::findVertexPredecessors(g, s);
                           h = hvec(hvec(h, p.first), p.second);
                       }
                       return h;
                   }});
    ops.push_back({"findAllVertexPredecessors", [](const G &g, const G &, int, const std::string &) {
                       uint64_t h = 7;
                       for (VertexIndex s = 1; s < g.getSize(); s += 3) {
                           auto p = alg::findAllVertexPredecessors(g, s);
                           h = hvec(h, p.first);
                           for (auto &l : p.second) h = hvec(h, l);
                       }
                       return h;
                   }});
    ops.push_back({"findGeodesics", [](const G &g, const G &, int, const std::string &) {
                       uint64_t h = 8;
                       size_t n = g.getSize();
                       for (VertexIndex s = 0; s < n; s += 2)
                           for (VertexIndex t = 0; t < n; t += 3) h = hvec(h, alg::findGeodesics(g, s, t));
                       return h;
                   }});
    ops.push_back({"findAllGeodesics", [](const G &g, const G &, int, const std::string &) {
                       uint64_t h = 9;
                       size_t n = g.getSize();
                       for (VertexIndex s = 0; s < n; s += 3)
                           for (VertexIndex t = 1; t < n; t += 3)
                               for (auto &p : alg::findAllGeodesics(g, s, t)) h = hvec(h, p);
                       return h;
                   }});
    ops.push_back({"findGeodesicsFromVertex", [](const G &g, const G &, int, const std::string &) {
                       uint64_t h = 10;
                       for (auto &p : alg::findGeodesicsFromVertex(g, 0)) h = hvec(h, p);
                       return h;
                   }});
    ops.push_back({"findAllGeodesicsFromVertex", [](const G &g, const G &, int, const std::string &) {
                       uint64_t h = 11;
                       for (auto &ps : alg::findAllGeodesicsFromVertex(g, g.getSize() - 1))
                           for (auto &p : ps) h = hvec(h, p);
                       return h;
                   }});
    ops.push_back({"writeTextEdgeList", [](const G &g, const G &, int tid, const std::string &dir) {
                       std::string p = dir + "/race-" + std::to_string(getpid()) + "-" + std::to_string(tid) + ".txt";
                       std::function<std::string(const L &)> enc = [](const L &l) { return LT<L>::str(l); };
                       io::writeTextEdgeList(g, p, enc);
                       return fileDigest(p);
                   }});
    if constexpr (std::is_same<L, int>::value || std::is_same<L, NoLabel>::value)
        ops.push_back({"writeBinaryEdgeList", [](const G &g, const G &, int tid, const std::string &dir) {
                           std::string p = dir + "/race-" + std::to_string(getpid()) + "-" + std::to_string(tid) + ".bin";
                           io::writeBinaryEdgeList(g, p);
                           return fileDigest(p);
                       }});
}

template <class G> void multiOps(std::vector<Op<G>> &ops) {
    constexpr bool directed = IsDirected<G>::value;
    ops.push_back({"observers", [](const G &g, const G &, int, const std::string &) { return digestStructure(g); }});
    ops.push_back({"vertex+edge iteration", [](const G &g, const G &, int, const std::string &) { return digestEdges(g); }});
    ops.push_back({"multiplicities", [](const G &g, const G &, int, const std::string &) {
                       uint64_t h = hv(12, g.getTotalEdgeNumber());
                       for (VertexIndex i = 0; i < g.getSize(); ++i)
                           for (VertexIndex j = 0; j < g.getSize(); ++j) h = hv(h, g.getEdgeMultiplicity(i, j));
                       return h;
                   }});
    ops.push_back({"operator==", [](const G &g, const G &o, int, const std::string &) { return (uint64_t)((g == o) * 2 + (g != o) + 4 * (g == g)); }});
    ops.push_back({"copy", [](const G &g, const G &, int, const std::string &) {
                       G c(g);
                       G d(0);
                       d = g;
                       return hv(digestStructure(c), digestEdges(d));
                   }});
    ops.push_back({"operator<<", [](const G &g, const G &, int, const std::string &) { return digestStream(g); }});
    ops.push_back({"degrees+matrix", [](const G &g, const G &, int, const std::string &) {
                       uint64_t h = 13;
                       if constexpr (directed) {
                           h = hvec(hvec(h, g.getInDegrees()), g.getOutDegrees());
                           for (VertexIndex i = 0; i < g.getSize(); ++i) h = hv(hv(h, g.getInDegree(i)), g.getOutDegree(i));
                       } else {
                           h = hvec(hvec(h, g.getDegrees(true)), g.getDegrees(false));
                           for (VertexIndex i = 0; i < g.getSize(); ++i) h = hv(h, g.getDegree(i));
                       }
                       for (auto &row : g.getAdjacencyMatrix()) h = hvec(h, row);
                       return h;
                   }});
    ops.push_back({"asLabeledGraph+writeBinaryEdgeList", [](const G &g, const G &, int tid, const std::string &dir) {
                       std::string p = dir + "/race-" + std::to_string(getpid()) + "-" + std::to_string(tid) + ".mbin";
                       io::writeBinaryEdgeList(g.asLabeledGraph(), p);
                       return fileDigest(p);
                   }});
}

template <class G> void weightedOps(std::vector<Op<G>> &ops) {
    constexpr bool directed = IsDirected<G>::value;
    ops.push_back({"observers", [](const G &g, const G &, int, const std::string &) { return digestStructure(g); }});
    ops.push_back({"vertex+edge iteration", [](const G &g, const G &, int, const std::string &) { return digestEdges(g); }});
    ops.push_back({"weights", [](const G &g, const G &, int, const std::string &) {
                       uint64_t h = hdouble(14, (double)g.getTotalWeight());
                       for (VertexIndex i = 0; i < g.getSize(); ++i)
                           for (VertexIndex j = 0; j < g.getSize(); ++j) h = hdouble(h, g.getEdgeWeight(i, j, false));
                       for (auto &row : g.getWeightMatrix())
                           for (auto w : row) h = hdouble(h, w);
                       return h;
                   }});
    ops.push_back({"operator==", [](const G &g, const G &o, int, const std::string &) { return (uint64_t)((g == o) * 2 + (g != o) + 4 * (g == g)); }});
    ops.push_back({"copy", [](const G &g, const G &, int, const std::string &) {
                       G c(g);
                       G d(0);
                       d = g;
                       return hv(digestStructure(c), digestEdges(d));
                   }});
    ops.push_back({"operator<<", [](const G &g, const G &, int, const std::string &) { return digestStream(g); }});
    ops.push_back({"degrees+matrix", [](const G &g, const G &, int, const std::string &) {
                       uint64_t h = 15;
                       if constexpr (directed) {
                           h = hvec(hvec(h, g.getInDegrees()), g.getOutDegrees());
                           for (VertexIndex i = 0; i < g.getSize(); ++i) h = hv(hv(h, g.getInDegree(i)), g.getOutDegree(i));
                       } else {
                           h = hvec(hvec(h, g.getDegrees(true)), g.getDegrees(false));
                       }
                       for (auto &row : g.getAdjacencyMatrix()) h = hvec(h, row);
                       return h;
                   }});
    ops.push_back({"findGeodesicsDijkstra", [](const G &g, const G &, int, const std::string &) {
                       uint64_t h = 16;
                       for (VertexIndex s = 0; s < g.getSize(); s += 2) {
                           auto r = alg::findGeodesicsDijkstra(g, s);
                           for (auto d : r.first) h = hdouble(h, d);
                           h = hvec(h, r.second);
                       }
                       return h;
                   }});
    ops.push_back({"asLabeledGraph+writeTextEdgeList", [](const G &g, const G &, int tid, const std::string &dir) {
                       std::string p = dir + "/race-" + std::to_string(getpid()) + "-" + std::to_string(tid) + ".wtxt";
                       std::function<std::string(const EdgeWeight &)> enc = [](const EdgeWeight &w) { return std::to_string(w); };
                       io::writeTextEdgeList(g.asLabeledGraph(), p, enc);
                       return fileDigest(p);
                   }});
}

// ---- shared-graph builders ---------------------------------------------------
template <class G, class F> void fill(G &g, Rng &r, unsigned n, F add) {
    g.resize(n);
    unsigned m = n + r.u(n * 2);
    for (unsigned t = 0; t < m; ++t) {
        VertexIndex i = r.u(n);
        VertexIndex j = r.chance(1, 8) ? i : r.u(n);
        add(g, i, j, t);
    }
    // a past: 300-400 removals and re-additions (state that is maintained incrementally has been through its paces)
    unsigned churn = 300 + r.u(101);
    for (unsigned t = 0; t < churn; ++t) {
        VertexIndex i = r.u(n), j = r.u(n);
        if (g.hasEdge(i, j)) {
            g.removeEdge(i, j);
            if (r.chance(1, 2)) add(g, i, j, 5000 + t);
        } else {
            add(g, i, j, 6000 + t);
            if (r.chance(1, 2)) g.removeEdge(i, j);
        }
    }
    if (n >= 36 && n <= 48) { // dense: more than a thousand edges
        for (unsigned a = 0; a < n; ++a)
            for (unsigned b = 0; b < n; ++b)
                if (r.chance(9, 10)) add(g, a, b, 9000 + a * n + b);
    }
    if (n >= 40) { // scale: a hub joined to most vertices (long neighbour lists, wide BFS levels, many heap entries)
        VertexIndex hub = r.u(n);
        for (unsigned t = 0; t < n; ++t)
            if (r.chance(4, 5)) add(g, hub, t, m + t);
    }
}

struct Shared {
    std::atomic<int> ready{0};
    std::atomic<int> go{0};
    std::atomic<int> mismatchOp{-1};
    std::atomic<uint64_t> opsDone{0};
    std::atomic<int> current[16];
};

struct RaceCounters {
    uint64_t threadOps = 0, threadsStarted = 0, graphs = 0, overlapsSampled = 0;
    std::set<std::pair<std::string, std::string>> overlapPairs;
    std::map<std::string, uint64_t> opRuns;
} RC;

template <class G> void runCase(Reporter &R, const std::string &cls, const G &g, const G &twin, const G &other, const std::vector<Op<G>> &ops, unsigned T, unsigned opsPerThread, uint64_t sub) {
    std::string dir = R.args.workDir.empty() ? "/tmp" : R.args.workDir;
    // single-threaded baseline, computed on the twin
    std::vector<uint64_t> base(ops.size());
    for (size_t k = 0; k < ops.size(); ++k) base[k] = ops[k].run(twin, other, 99, dir);
    Shared sh;
    for (auto &c : sh.current) c.store(-1, std::memory_order_relaxed);
    std::vector<std::thread> th;
    std::vector<std::vector<std::pair<int, int>>> seen(T);
    std::vector<std::vector<uint64_t>> runs(T, std::vector<uint64_t>(ops.size(), 0));
    ++RC.graphs;
    for (unsigned t = 0; t < T; ++t) {
        th.emplace_back([&, t] {
            Rng r = caseRng(R.args.seed, hashStr(cls) + t * 7919, sub);
            sh.ready.fetch_add(1, std::memory_order_relaxed);
            while (sh.go.load(std::memory_order_relaxed) == 0) std::this_thread::yield();
            for (unsigned k = 0; k < opsPerThread; ++k) {
                int op = (int)r.u((unsigned)ops.size());
                sh.current[t].store(op, std::memory_order_relaxed);
                uint64_t d = ops[op].run(g, other, (int)t, dir);
                // who else is inside the library right now?
                for (unsigned o = 0; o < T; ++o)
                    if (o != t) {
                        int oo = sh.current[o].load(std::memory_order_relaxed);
                        if (oo >= 0) seen[t].push_back({op, oo});
                    }
                ++runs[t][op];
                if (d != base[op]) sh.mismatchOp.store(op, std::memory_order_relaxed);
            }
            sh.current[t].store(-1, std::memory_order_relaxed);
            sh.opsDone.fetch_add(opsPerThread, std::memory_order_relaxed);
        });
    }
    while (sh.ready.load(std::memory_order_relaxed) < (int)T) std::this_thread::yield();
    sh.go.store(1, std::memory_order_relaxed);
    for (auto &x : th) x.join();
    RC.threadsStarted += T;
    RC.threadOps += sh.opsDone.load();
    for (unsigned t = 0; t < T; ++t) {
        for (auto &p : seen[t]) {
            ++RC.overlapsSampled;
            RC.overlapPairs.insert({cls + ":" + ops[p.first].name, ops[p.second].name});
        }
        for (size_t k = 0; k < ops.size(); ++k) RC.opRuns[ops[k].name] += runs[t][k];
    }
    int mm = sh.mismatchOp.load();
    if (mm >= 0)
        R.violation(cls + "/" + ops[mm].name + "/result-differs-from-single-threaded-run",
                    "with " + std::to_string(T) + " concurrent reader threads, " + ops[mm].name + " returned something else than in the single-threaded baseline");
}

template <class G, class B, class O> void caseFor(Reporter &R, const char *cls, uint64_t sub, unsigned T, unsigned opsPerThread, B build, O opsOf) {
    Rng r = caseRng(R.args.seed, hashStr(std::string(cls) + "g"), sub);
    G g(0), twin(0), other(0);
    unsigned n = 6 + r.u(7);
    if (sub % 4 == 3) {
        n = sub % 8 == 3 ? 36 + r.u(13) : 40 + r.u(61); // 36-48 vertices get a dense graph (files beyond 8 KiB), 40-100 a hub
        opsPerThread = std::max(8u, opsPerThread / 4);
    }
    // g is what the threads read; `twin` is built by the very same calls and serves the single-threaded baseline, so that
    // no const entry point has ever run on g before the threads start (lazily computed / first-call state stays cold)
    Rng r2 = r;
    build(g, r, n);
    build(twin, r2, n);
    if (sub % 2) other = twin;
    else build(other, r, n);
    static std::vector<Op<G>> ops;
    if (ops.empty()) opsOf(ops);
    R.counter("const_entry_points_" + std::string(cls) + "_max") = ops.size();
    R.distinct.insert(mix64(hashStr(cls), mix64(sub, T)));
    runCase<G>(R, cls, g, twin, other, ops, T, opsPerThread, sub);
}

} // namespace

int main(int argc, char **argv) {
    Reporter R;
    R.args = parseArgs(argc, argv);
    R.openProgress();
    unsigned opsPerThread = (unsigned)R.args.geti("ops", 60);
    static const unsigned threadCounts[] = {2, 3, 4, 8, 16};
    std::string desc;
    R.describeCase = [&] { return "{\"case\": " + q(desc) + "}"; };
    forCases(R, R.args.cases, "race", [&](uint64_t idx) {
        unsigned k = (unsigned)(idx % 8);
        unsigned T = threadCounts[(idx / 8) % 5];
        uint64_t sub = idx / 40;
        if (sub % 4 == 3) R.count("shared_graphs_of_40_to_100_vertices_with_a_hub");
        desc = "class#" + std::to_string(k) + " threads=" + std::to_string(T) + " sub=" + std::to_string(sub);
        R.count("cases_with_" + std::to_string(T) + "_threads");
        switch (k) {
        case 0:
            caseFor<LabeledDirectedGraph<int>>(R, "LabeledDirectedGraph<int>", sub, T, opsPerThread,
                                                [](LabeledDirectedGraph<int> &g, Rng &r, unsigned n) { fill(g, r, n, [](auto &gg, VertexIndex i, VertexIndex j, unsigned t) { gg.addEdge(i, j, (int)t + 1); }); },
                                                [](std::vector<Op<LabeledDirectedGraph<int>>> &o) { simpleOps<LabeledDirectedGraph<int>, int>(o); });
            break;
        case 1:
            caseFor<LabeledUndirectedGraph<std::string>>(R, "LabeledUndirectedGraph<string>", sub, T, opsPerThread,
                                                          [](LabeledUndirectedGraph<std::string> &g, Rng &r, unsigned n) { fill(g, r, n, [](auto &gg, VertexIndex i, VertexIndex j, unsigned t) { gg.addEdge(i, j, LT<std::string>::make(t + 1)); }); },
                                                          [](std::vector<Op<LabeledUndirectedGraph<std::string>>> &o) { simpleOps<LabeledUndirectedGraph<std::string>, std::string>(o); });
            break;
        case 2:
            caseFor<LabeledDirectedGraph<NoLabel>>(R, "DirectedGraph", sub, T, opsPerThread,
                                                    [](LabeledDirectedGraph<NoLabel> &g, Rng &r, unsigned n) { fill(g, r, n, [](auto &gg, VertexIndex i, VertexIndex j, unsigned) { gg.addEdge(i, j); }); },
                                                    [](std::vector<Op<LabeledDirectedGraph<NoLabel>>> &o) { simpleOps<LabeledDirectedGraph<NoLabel>, NoLabel>(o); });
            break;
        case 3:
            caseFor<LabeledUndirectedGraph<NoLabel>>(R, "UndirectedGraph", sub, T, opsPerThread,
                                                      [](LabeledUndirectedGraph<NoLabel> &g, Rng &r, unsigned n) { fill(g, r, n, [](auto &gg, VertexIndex i, VertexIndex j, unsigned) { gg.addEdge(i, j); }); },
                                                      [](std::vector<Op<LabeledUndirectedGraph<NoLabel>>> &o) { simpleOps<LabeledUndirectedGraph<NoLabel>, NoLabel>(o); });
            break;
        case 4:
            caseFor<DirectedMultigraph>(R, "DirectedMultigraph", sub, T, opsPerThread,
                                         [](DirectedMultigraph &g, Rng &r, unsigned n) { fill(g, r, n, [](auto &gg, VertexIndex i, VertexIndex j, unsigned t) { gg.addMultiedge(i, j, 1 + t % 3); }); },
                                         [](std::vector<Op<DirectedMultigraph>> &o) { multiOps<DirectedMultigraph>(o); });
            break;
        case 5:
            caseFor<UndirectedMultigraph>(R, "UndirectedMultigraph", sub, T, opsPerThread,
                                           [](UndirectedMultigraph &g, Rng &r, unsigned n) { fill(g, r, n, [](auto &gg, VertexIndex i, VertexIndex j, unsigned t) { gg.addMultiedge(i, j, 1 + t % 3); }); },
                                           [](std::vector<Op<UndirectedMultigraph>> &o) { multiOps<UndirectedMultigraph>(o); });
            break;
        case 6:
            caseFor<DirectedWeightedGraph>(R, "DirectedWeightedGraph", sub, T, opsPerThread,
                                            [](DirectedWeightedGraph &g, Rng &r, unsigned n) { fill(g, r, n, [](auto &gg, VertexIndex i, VertexIndex j, unsigned t) { gg.addEdge(i, j, (double)(t % 9) / 4.0); }); },
                                            [](std::vector<Op<DirectedWeightedGraph>> &o) { weightedOps<DirectedWeightedGraph>(o); });
            break;
        default:
            caseFor<UndirectedWeightedGraph>(R, "UndirectedWeightedGraph", sub, T, opsPerThread,
                                              [](UndirectedWeightedGraph &g, Rng &r, unsigned n) { fill(g, r, n, [](auto &gg, VertexIndex i, VertexIndex j, unsigned t) { gg.addEdge(i, j, (double)(t % 9) / 4.0); }); },
                                              [](std::vector<Op<UndirectedWeightedGraph>> &o) { weightedOps<UndirectedWeightedGraph>(o); });
        }
    });
    R.count("shared_graphs", RC.graphs);
    R.count("threads_started", RC.threadsStarted);
    R.count("thread_ops_executed", RC.threadOps);
    R.count("overlap_samples", RC.overlapsSampled);
    for (auto &kv : RC.opRuns) R.count("runs_" + kv.first, kv.second);
    for (auto &p : RC.overlapPairs) R.states.insert(hashStr(p.first + "|" + p.second));
    if (!RC.overlapPairs.empty()) {
        std::string s = "{\"op_pairs_seen_overlapping\": [";
        int c = 0;
        for (auto &p : RC.overlapPairs) {
            if (c++ >= 8) break;
            s += (c > 1 ? ", " : "") + q(p.first + " || " + p.second);
        }
        R.sample(s + "]}");
    }
    R.write();
    return R.viols.empty() ? 0 : 1;
}
