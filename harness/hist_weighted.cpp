// History monitor for DirectedWeightedGraph / UndirectedWeightedGraph.
// Serves C05, C06, C16 (weighted part).
#include "hist.hpp"
#include "snapshot.hpp"
#include <cmath>

namespace vf {
namespace {

enum Kind { ADD, SETW, REMOVE, LOOPS, VERTEX, CLEAR, RESIZE, DEDUP, KIND_COUNT };
const char *kindName(int k) {
    static const char *n[] = {"addEdge", "setEdgeWeight", "removeEdge", "removeSelfLoops", "removeVertexFromEdgeList", "clearEdges", "resize", "removeDuplicateEdges"};
    return n[k];
}
std::string wstr(double w) {
    char b[40];
    snprintf(b, sizeof b, "%.17g", w);
    return b;
}
struct Op {
    int kind = 0;
    VertexIndex i = 0, j = 0;
    double w = 0;
    unsigned k = 0;
    bool force = false;
    bool rejected = false; // out-of-range index or shrinking resize: must throw, denotes no change
    std::string str() const {
        std::ostringstream o;
        if (rejected) o << "rejected: ";
        if (rejected && kind == RESIZE) {
            o << "resize(" << k << ")";
            return o.str();
        }
        switch (kind) {
        case ADD: o << "addEdge(" << i << "," << j << "," << wstr(w) << (force ? ",force=true)" : ")"); break;
        case SETW: o << "setEdgeWeight(" << i << "," << j << "," << wstr(w) << ")"; break;
        case REMOVE: o << "removeEdge(" << i << "," << j << ")"; break;
        case LOOPS: o << "removeSelfLoops()"; break;
        case VERTEX: o << "removeVertexFromEdgeList(" << i << ")"; break;
        case CLEAR: o << "clearEdges()"; break;
        case RESIZE: o << "resize(size+" << k << ")"; break;
        case DEDUP: o << "removeDuplicateEdges()"; break;
        }
        return o.str();
    }
};

struct WModel {
    bool directed = true;
    unsigned n = 0;
    struct Cell {
        double w = 0;
        unsigned copies = 1;
    };
    std::map<Edge, Cell> e;
    long double everAdded = 0; // sum of |w| ever added (rounding tolerance)
    Edge key(VertexIndex i, VertexIndex j) const { return canon(directed, i, j); }
    bool has(VertexIndex i, VertexIndex j) const { return e.count(key(i, j)) != 0; }
    long double total() const {
        long double t = 0;
        for (auto &kv : e) t += (long double)kv.second.w * kv.second.copies;
        return t;
    }
    Expect expect() const {
        Expect x;
        x.directed = directed;
        x.n = n;
        for (auto &kv : e) {
            Expect::Cell c;
            c.copies = kv.second.copies;
            x.e[kv.first] = c;
        }
        return x;
    }
    uint64_t hash() const {
        uint64_t h = mix64(n, directed);
        for (auto &kv : e) {
            uint64_t b;
            memcpy(&b, &kv.second.w, 8);
            h = mix64(h, mix64(((uint64_t)kv.first.first << 32) | kv.first.second, b * 7 + kv.second.copies));
        }
        return h;
    }
    std::string str() const {
        std::ostringstream o;
        o << "n=" << n << " {";
        for (auto &kv : e) {
            o << "(" << kv.first.first << "," << kv.first.second << ")";
            if (kv.second.copies != 1) o << "x" << kv.second.copies;
            o << ":" << wstr(kv.second.w) << " ";
        }
        o << "}";
        return o.str();
    }
};

template <class G> struct Subject {
    static constexpr bool directed = IsDirected<G>::value;
    G g;
    WModel m;
    std::vector<Op> hist;
    std::map<Edge, int> ghosts;
    unsigned removals = 0;
    bool notRejected = false; // a call that had to be rejected was not (C07's verdict): the history is abandoned
    explicit Subject(unsigned n0) : g(n0) {
        m.directed = directed;
        m.n = n0;
    }
    void gone(Edge k, int how) {
        if (m.e.erase(k)) {
            ghosts[k] = how;
            ++removals;
        }
    }
    void modelAdd(VertexIndex i, VertexIndex j, double w, bool force) {
        Edge key = m.key(i, j);
        auto it = m.e.find(key);
        if (it == m.e.end()) {
            WModel::Cell c;
            c.w = w;
            m.e[key] = c;
            ghosts.erase(key);
            m.everAdded += std::fabs((long double)w);
        } else if (force) {
            it->second.copies++;
            it->second.w = w;
            m.everAdded += std::fabs((long double)w);
        }
    }
    bool isNoop(const Op &op) const {
        if (op.rejected) return true;
        switch (op.kind) {
        case ADD: return !op.force && m.has(op.i, op.j);
        case REMOVE: return !m.has(op.i, op.j);
        case LOOPS:
            for (auto &kv : m.e)
                if (kv.first.first == kv.first.second) return false;
            return true;
        case VERTEX:
            for (auto &kv : m.e)
                if (kv.first.first == op.i || kv.first.second == op.i) return false;
            return true;
        case CLEAR: return m.e.empty();
        case RESIZE: return op.k == 0;
        }
        return false;
    }
    std::string apply(const Op &op) {
        hist.push_back(op);
        std::string what;
        Exc ex = classify([&] {
            switch (op.kind) {
            case ADD:
                if (op.force) g.addEdge(op.i, op.j, op.w, true);
                else g.addEdge(op.i, op.j, op.w);
                break;
            case SETW: g.setEdgeWeight(op.i, op.j, op.w); break;
            case REMOVE: g.removeEdge(op.i, op.j); break;
            case LOOPS: g.removeSelfLoops(); break;
            case VERTEX: g.removeVertexFromEdgeList(op.i); break;
            case CLEAR: g.clearEdges(); break;
            case RESIZE: g.resize(op.rejected ? op.k : g.getSize() + op.k); break;
            case DEDUP: g.removeDuplicateEdges(); break;
            }
        }, &what);
        if (op.rejected) {
            if (ex != (op.kind == RESIZE ? EX_INVALID_ARGUMENT : EX_OUT_OF_RANGE)) notRejected = true;
            return "";
        }
        if (ex != EX_NONE) return std::string("valid call threw ") + excName(ex) + " (" + what + ")";
        switch (op.kind) {
        case ADD: modelAdd(op.i, op.j, op.w, op.force); break;
        case SETW: {
            auto it = m.e.find(m.key(op.i, op.j));
            if (it == m.e.end()) modelAdd(op.i, op.j, op.w, false);
            else {
                it->second.w = op.w;
                m.everAdded += std::fabs((long double)op.w);
            }
            break;
        }
        case REMOVE: gone(m.key(op.i, op.j), G_REMOVE); break;
        case LOOPS: {
            std::vector<Edge> v;
            for (auto &kv : m.e)
                if (kv.first.first == kv.first.second) v.push_back(kv.first);
            for (auto &k : v) gone(k, G_LOOPS);
            break;
        }
        case VERTEX: {
            std::vector<std::pair<Edge, int>> v;
            for (auto &kv : m.e)
                if (kv.first.first == op.i) v.push_back({kv.first, G_VERTEX_SRC});
                else if (kv.first.second == op.i) v.push_back({kv.first, G_VERTEX_DST});
            for (auto &k : v) gone(k.first, k.second);
            break;
        }
        case CLEAR: {
            std::vector<Edge> v;
            for (auto &kv : m.e) v.push_back(kv.first);
            for (auto &k : v) gone(k, G_CLEAR);
            break;
        }
        case RESIZE: m.n += op.k; break;
        case DEDUP:
            for (auto &kv : m.e) kv.second.copies = 1;
            break;
        }
        return "";
    }
    std::string histJson() const {
        std::string o = "[";
        for (size_t i = 0; i < hist.size(); ++i) o += (i ? "," : "") + q(hist[i].str());
        return o + "]";
    }
};

template <class G> struct Monitor {
    static constexpr bool directed = IsDirected<G>::value;
    Reporter &R;
    const HistConfig &cfg;
    std::string cls;
    ObsCounters oc;
    uint64_t callsByKind[KIND_COUNT] = {0};
    uint64_t rejectedCalls = 0, rejectedThenGrown = 0, abandonedNotRejected = 0, hugeWeightCalls = 0, totalsBeyondDouble = 0, hugeAvoided = 0;
    uint64_t specialWeights = 0, longHistories = 0, scaleHistories = 0, maxDegreeSeen = 0, calls = 0, wPresent = 0, wAbsent = 0, totExact = 0, totTol = 0, matCells = 0, noopChecks = 0, setPresent = 0, setAbsent = 0, setDescending = 0;
    uint64_t after[G_COUNT] = {0};
    Monitor(Reporter &R, const HistConfig &cfg, std::string cls) : R(R), cfg(cfg), cls(std::move(cls)) {}

    void flush() {
        oc.flush(R);
        R.count("calls_total", calls);
        for (int k = 0; k < KIND_COUNT; ++k)
            if (callsByKind[k]) R.count(std::string("calls_") + kindName(k), callsByKind[k]);
        R.count("weight_reads_present_edge", wPresent);
        R.count("weight_reads_absent_pair", wAbsent);
        R.count("total_weight_exact_comparisons", totExact);
        R.count("total_weight_tolerance_comparisons", totTol);
        R.count("weight_matrix_cells", matCells);
        R.count("noop_exactness_checks", noopChecks);
        R.count("calls_with_a_weight_above_half_of_DBL_MAX", hugeWeightCalls);
        R.count("total_weight_checks_skipped_sum_beyond_double_range", totalsBeyondDouble);
        R.count("huge_weights_replaced_to_keep_the_sum_a_double", hugeAvoided);
        hugeWeightCalls = totalsBeyondDouble = hugeAvoided = 0;
        R.count("rejected_calls_inside_histories", rejectedCalls);
        R.count("rejected_calls_followed_by_resize_making_the_index_valid", rejectedThenGrown);
        R.count("histories_abandoned_call_not_rejected", abandonedNotRejected);
        rejectedCalls = rejectedThenGrown = abandonedNotRejected = 0;
        R.count("setEdgeWeight_with_ulp_neighbour_tiny_or_negative_zero", specialWeights);
        R.count("exact_histories_scaled_by_a_power_of_two", scaledExactHistories);
        scaledExactHistories = 0;
        specialWeights = 0;
        R.count("long_histories_2000_to_4500_calls", longHistories);
        longHistories = 0;
        R.count("scale_histories_12_to_70_vertices", scaleHistories);
        { uint64_t &m1 = R.counter("largest_neighbour_list_seen_max"); m1 = std::max(m1, maxDegreeSeen); }
        scaleHistories = 0;
        R.count("setEdgeWeight_on_present_edge", setPresent);
        R.count("setEdgeWeight_on_absent_pair", setAbsent);
        R.count("setEdgeWeight_pair_named_in_descending_order", setDescending);
        for (int g = 1; g < G_COUNT; ++g)
            if (after[g]) R.count(std::string("weight_reads_after_") + goneName(g), after[g]);
        calls = wPresent = wAbsent = totExact = totTol = matCells = noopChecks = setPresent = setAbsent = setDescending = 0;
        for (auto &c : callsByKind) c = 0;
        for (auto &c : after) c = 0;
    }

    std::string checkWeights(const Subject<G> &s, bool exact) {
        std::ostringstream o;
        o.precision(20);
        unsigned n = s.m.n;
        try {
            long double want = s.m.total();
            long double got = s.g.getTotalWeight();
            if (exact) {
                ++totExact;
                if (got != want) {
                    o << "getTotalWeight: expected exactly " << (double)want << " got " << (double)got << " (all weights dyadic, every partial sum exact)";
                    return o.str();
                }
            } else if (!(std::fabs(want) < 1.7976931348623157e308L)) {
                ++totalsBeyondDouble; // the sum itself is not a double: nothing is promised about how it is reported
            } else {
                ++totTol;
                long double tol = 1e-9L * (1 + s.m.everAdded);
                if (!(std::fabs(got - want) <= tol)) {
                    o << "getTotalWeight: expected " << (double)want << " +- " << (double)tol << " got " << (double)got;
                    return o.str();
                }
            }
        } catch (std::exception &ex) {
            return std::string("getTotalWeight-threw: ") + ex.what();
        }
        for (VertexIndex i = 0; i < n; ++i)
            for (VertexIndex j = 0; j < n; ++j) {
                auto it = s.m.e.find(s.m.key(i, j));
                std::string what;
                double g1 = 0, g2 = 0;
                if (it != s.m.e.end()) {
                    ++wPresent;
                    Exc ex = classify([&] {
                        g1 = s.g.getEdgeWeight(i, j);
                        g2 = s.g.getEdgeWeight(i, j, false);
                    }, &what);
                    if (ex != EX_NONE) {
                        o << "getEdgeWeight(" << i << "," << j << ") on a present edge threw " << excName(ex);
                        return o.str();
                    }
                    if (g1 != it->second.w || g2 != it->second.w) {
                        o << "getEdgeWeight(" << i << "," << j << "): expected " << it->second.w << " got " << g1 << " / nothrow " << g2;
                        return o.str();
                    }
                } else {
                    auto gh = s.ghosts.find(s.m.key(i, j));
                    if (n > 12 && gh == s.ghosts.end() && mix64(((uint64_t)i << 32) | j, s.hist.size()) % ((uint64_t)n * n) >= 150) continue;
                    ++wAbsent;
                    int how = gh == s.ghosts.end() ? G_NONE : gh->second;
                    ++after[how];
                    Exc ex = classify([&] { g1 = s.g.getEdgeWeight(i, j); }, &what);
                    if (ex != EX_INVALID_ARGUMENT) {
                        o << "getEdgeWeight(" << i << "," << j << ") on a pair that is not an edge (gone by " << goneName(how) << "): expected std::invalid_argument, got " << excName(ex);
                        if (ex == EX_NONE) o << " and value " << g1;
                        return o.str();
                    }
                    ex = classify([&] { g2 = s.g.getEdgeWeight(i, j, false); }, &what);
                    if (ex != EX_NONE || g2 != 0) {
                        o << "getEdgeWeight(" << i << "," << j << ",false) on a pair that is not an edge (gone by " << goneName(how) << "): expected 0, got "
                          << (ex == EX_NONE ? wstr(g2) : excName(ex));
                        return o.str();
                    }
                }
            }
        try {
            auto wm = s.g.getWeightMatrix();
            matCells += (uint64_t)n * n;
            if (wm.size() != n) {
                o << "getWeightMatrix: " << wm.size() << " rows, expected " << n;
                return o.str();
            }
            for (VertexIndex i = 0; i < n; ++i) {
                if (wm[i].size() != n) {
                    o << "getWeightMatrix: row " << i << " has " << wm[i].size() << " columns";
                    return o.str();
                }
                for (VertexIndex j = 0; j < n; ++j) {
                    auto it = s.m.e.find(s.m.key(i, j));
                    double want = it == s.m.e.end() ? 0 : it->second.w;
                    if (wm[i][j] != want) {
                        o << "getWeightMatrix[" << i << "][" << j << "]: expected " << want << " got " << wm[i][j];
                        return o.str();
                    }
                }
            }
        } catch (std::exception &ex) {
            return std::string("getWeightMatrix-threw: ") + ex.what();
        }
        return "";
    }
    static std::string observerOf(const std::string &msg) {
        size_t p = msg.find_first_of(":([");
        return p == std::string::npos ? msg : msg.substr(0, p);
    }
    std::string checkAll(const Subject<G> &s, bool exact) {
        bool dup = false;
        for (auto &kv : s.m.e)
            if (kv.second.copies > 1) dup = true;
        if (cfg.obsStruct) {
            std::string e = checkStructure(s.g, s.m.expect(), oc, !dup);
            if (!e.empty()) return e;
        }
        if (cfg.obsLabel && !dup) {
            std::string e = checkWeights(s, exact);
            if (!e.empty()) return e;
        }
        return "";
    }
    // some rounding-mode histories carry weights near the top of the double range: two of them do not add up in a double, so
    // an accumulator narrower than the one the total is kept in shows as inf / nan instead of a rounding error
    bool hugeWeights = false;
    // exact histories are scaled by a power of two (every weight and partial sum stays exactly representable): a total that is
    // kept right only for differences above some absolute threshold, or in a narrower type, shows there and nowhere else
    int exactScale = 0;
    uint64_t scaledExactHistories = 0;
    double genWeight(Rng &r, bool exact) {
        if (hugeWeights && !exact && r.chance(1, 3)) {
            ++hugeWeightCalls;
            return (r.chance(1, 2) ? 1.0 : -1.0) * (0.5 + 0.49 * r.unit()) * 1.7976931348623157e308;
        }
        if (exact) {
            unsigned c = r.u(10);
            if (c == 0) return 0.0;
            long k = (long)r.below(2097153) - 1048576; // |k| <= 2^20
            if (c < 4) k = (long)r.below(65) - 32;
            return std::ldexp((double)k / 8.0, exactScale);
        }
        unsigned c = r.u(12);
        if (c == 0) return 0.0;
        double mag = std::pow(10.0, (double)r.u(13) - 6.0); // 1e-6 .. 1e6
        double v = (r.unit() * 2 - 1) * mag;
        return v;
    }
    Op gen(Rng &r, Subject<G> &s, PairPicker &pp, unsigned style, unsigned step, unsigned len, unsigned maxN, bool exact) {
        Op op;
        unsigned n = s.m.n;
        unsigned wAdd = 38, wSet = 22, wRem = 16, wLoops = 4, wVertex = 6, wClear = 2, wResize = 3;
        if (style == 1) {
            bool addPhase = (step * 4 / (len + 1)) % 2 == 0;
            if (addPhase) { wAdd = 55; wRem = 5; wVertex = 2; wClear = 0; }
            else { wAdd = 8; wSet = 10; wRem = 40; wVertex = 12; wLoops = 8; }
        } else if (style == 2) {
            unsigned ph = step % 16;
            if (ph >= 9 && ph < 11) { wAdd = 0; wSet = 0; wRem = 5; wVertex = 30; wClear = 20; wLoops = 20; }
            else { wAdd = 60; wSet = 25; wRem = 3; wVertex = 0; wClear = 0; wLoops = 0; }
        }
        if (style == 4) { wAdd = 40; wSet = 14; wRem = 36; wLoops = 3; wVertex = 4; wClear = 0; wResize = 1; }
        if (style == 3) { wAdd = 50; wSet = 16; wRem = 26; wLoops = 1; wVertex = 1; wClear = 0; wResize = 1; }
        if (n >= maxN) wResize = 0;
        if (n == 0) { wAdd = wSet = wRem = wVertex = 0; wResize = 60; }
        unsigned tot = wAdd + wSet + wRem + wLoops + wVertex + wClear + wResize;
        unsigned x = r.u(tot);
        auto take = [&](unsigned w) { if (x < w) return true; x -= w; return false; };
        auto pick = [&](int want) {
            Edge e = pp.pick(r, n, s.m.e, directed, want);
            op.i = e.first; op.j = e.second;
        };
        if (take(wAdd)) { op.kind = ADD; pick(-1); op.w = genWeight(r, exact); }
        else if (take(wSet)) {
            op.kind = SETW; pick(r.chance(3, 4) ? 1 : 0); op.w = genWeight(r, exact);
            if (!exact && r.chance(1, 8)) {
                // a new weight that differs from the current one by one unit in the last place, or is tiny, or is -0.0
                auto it = s.m.e.find(s.m.key(op.i, op.j));
                double cur = it == s.m.e.end() ? 1.0 : it->second.w;
                switch (r.u(6)) {
                case 0: op.w = std::nextafter(cur, 1e300); break;
                case 1: op.w = std::nextafter(cur, -1e300); break;
                case 2: op.w = std::ldexp(1.0, -60); break;
                case 3: op.w = -std::ldexp(1.0, -1000); break;
                case 4: op.w = -0.0; break;
                default: op.w = cur * (1.0 + std::ldexp(1.0, -51)); break;
                }
                ++specialWeights;
            }
        }
        else if (take(wRem)) { op.kind = REMOVE; pick(1); }
        else if (take(wLoops)) op.kind = LOOPS;
        else if (take(wVertex)) { op.kind = VERTEX; pick(1); if (r.chance(1, 2)) op.i = op.j; }
        else if (take(wClear)) op.kind = CLEAR;
        else {
            op.kind = RESIZE;
            op.k = r.u(3);
            if (n == 0 && op.k == 0 && r.chance(3, 4)) op.k = 1 + r.u(3);
            if (n + op.k > maxN) op.k = maxN - n;
        }
        if (hugeWeights && (op.kind == ADD || op.kind == SETW)) {
            // the sum of the weights present stays inside the double range at every step: what is probed is an intermediate
            // value (a difference, a batch of removed weights) that leaves it, not a total that cannot be represented
            long double now = s.m.total(), then = now;
            auto it = s.m.e.find(s.m.key(op.i, op.j));
            if (it == s.m.e.end()) then = now + op.w;
            else if (op.kind == SETW) then = now - it->second.w + op.w;
            if (!(std::fabs(then) < 1.6e308L)) {
                hugeWeights = false;
                op.w = genWeight(r, exact);
                hugeWeights = true;
                ++hugeAvoided;
            }
        }
        return op;
    }

    void runHistory(uint64_t sub) {
        if (cfg.force) return runForced(sub);
        Rng r = caseRng(R.args.seed, hashStr(cls + cfg.prop), sub);
        static const unsigned startN[] = {0, 1, 2, 3, 5};
        bool exact = sub % 2 == 0;
        unsigned style = (sub / 2) % 3;
        unsigned n0 = startN[(sub / 6) % 5];
        unsigned len = 8 + r.u(cfg.maxLen - 7);
        unsigned maxN = cfg.maxN, checkEvery = 1;
        PairPicker pp;
        bool scale = cfg.scaleEvery && sub % cfg.scaleEvery == 7;
        if (scale) {
            static const unsigned bigN[] = {12, 24, 40, 70};
            n0 = bigN[(sub / cfg.scaleEvery) % 4];
            maxN = n0 + 2;
            len = 250 + r.u(n0 * 7);
            checkEvery = 8;
            style = 3;
            pp.hub = (int)r.u(n0);
            ++scaleHistories;
        } else if (cfg.scaleEvery && sub % (cfg.scaleEvery * 4) == 11) {
            len = 2000 + r.u(2500);
            checkEvery = 16;
            n0 = 3 + r.u(4);
            style = 4; // steady churn without clearEdges: hundreds of edges come and go on one object
            ++longHistories;
        }
        if (scale) exact = (sub / cfg.scaleEvery) % 2 == 0;
        else if (checkEvery == 16) exact = (sub / (cfg.scaleEvery * 4)) % 2 == 0;
        hugeWeights = !exact && checkEvery == 1 && sub % 7 == 3;
        exactScale = 0;
        if (exact) {
            static const int sc[] = {0, 0, -67, 0, -1000, 0, 900, -300};
            exactScale = sc[(sub / 2) % 8];
            if (exactScale) ++scaledExactHistories;
        }
        Subject<G> s(n0);
        Op prevOp;
        bool havePrev = false;
        unsigned pendingGrow = 0;
        bool withRejected = sub % 3 == 1; // every third history has calls in it that the library must reject
        R.describeCase = [&] {
            return "{\"class\": " + q(cls) + ", \"weights\": " + q(exact ? "exact-dyadic" : "rounding") + ", \"start_size\": " + std::to_string(n0) + ", \"history\": " + s.histJson() +
                   ", \"model_after\": " + q(s.m.str()) + "}";
        };
        std::string e0 = checkAll(s, exact);
        if (!e0.empty()) {
            R.violation(cls + "/constructor/" + observerOf(e0), e0);
            return;
        }
        uint64_t hh = n0;
        for (unsigned step = 0; step < len; ++step) {
            Op op = gen(r, s, pp, style, step, len, maxN, exact);
            if (havePrev && r.chance(1, 12)) op = prevOp; // the same call twice in a row
            if (withRejected) {
                if (pendingGrow) {
                    op = Op();
                    op.kind = RESIZE;
                    op.k = pendingGrow;
                    pendingGrow = 0;
                    ++rejectedThenGrown;
                } else if (r.chance(1, checkEvery > 1 ? 40 : 9)) {
                    // a call the library must reject (see pickRejected), with the weight the generator would have used next
                    Op valid = op;
                    RejectedArgs x = pickRejected(r, s.m.n);
                    op = Op();
                    op.rejected = true;
                    if (x.shrink) {
                        op.kind = RESIZE;
                        op.k = x.newSize;
                    } else {
                        static const int kinds[] = {ADD, ADD, SETW, SETW, SETW, REMOVE, VERTEX};
                        op.kind = kinds[r.u(7)];
                        op.i = x.a;
                        op.j = x.b;
                        op.w = (valid.kind == ADD || valid.kind == SETW) ? valid.w : 1.5;
                        if (op.kind == VERTEX && op.i < s.m.n) op.i = op.j;
                        if (x.growBy && s.m.n + x.growBy <= maxN + 4 && r.chance(2, 3)) pendingGrow = x.growBy;
                    }
                    ++rejectedCalls;
                }
            }
            if (!op.rejected) {
                prevOp = op;
                havePrev = true;
            }
            bool noop = !op.rejected && s.isNoop(op) && (op.kind == ADD || op.kind == REMOVE); // re-adding an existing edge / removing an absent one changes nothing
            std::vector<std::vector<VertexIndex>> before;
            if (noop) before = orderedLists(s.g);
            if (op.kind == SETW && !op.rejected) {
                if (s.m.has(op.i, op.j)) ++setPresent; else ++setAbsent;
                if (op.i > op.j) ++setDescending;
            }
            std::string err = s.apply(op);
            ++calls; ++callsByKind[op.kind];
            if (s.notRejected) {
                ++abandonedNotRejected;
                return;
            }
            if (!err.empty()) {
                R.violation(cls + "/" + kindName(op.kind) + "/exception", err);
                return;
            }
            if (noop) {
                ++noopChecks;
                if (orderedLists(s.g) != before) {
                    R.violation(cls + "/" + kindName(op.kind) + "/no-op-changed-neighbour-lists", "a call that must change nothing (" + op.str() + ") altered the neighbour lists");
                    return;
                }
            }
            if (checkEvery > 1 && step % checkEvery != 0 && step + 1 != len) continue;
            std::string e = checkAll(s, exact);
            if (!e.empty()) {
                R.violation(cls + "/" + kindName(op.kind) + "/" + observerOf(e), "after " + op.str() + ": " + e);
                return;
            }
            if (scale)
                for (VertexIndex v = 0; v < s.m.n; ++v) maxDegreeSeen = std::max<uint64_t>(maxDegreeSeen, s.g.getOutNeighbours(v).size());
            uint64_t sh = s.m.hash();
            R.states.insert(sh);
            hh = mix64(hh, sh);
        }
        R.digest(snapshot(s.g));
        R.distinct.insert(hh);
        if (sub < 30 && R.samples.size() < 4) R.sample("{\"class\": " + q(cls) + ", \"start_size\": " + std::to_string(n0) + ", \"history\": " + s.histJson() + "}");
    }

    void runForced(uint64_t sub) {
        Rng r = caseRng(R.args.seed, hashStr(cls + "forced"), sub);
        unsigned n = 1 + r.u(5);
        Subject<G> s(n);
        R.describeCase = [&] { return "{\"class\": " + q(cls) + ", \"start_size\": " + std::to_string(n) + ", \"history\": " + s.histJson() + "}"; };
        std::map<Edge, double> value;
        unsigned rounds = 1 + r.u(3);
        uint64_t hh = n;
        for (unsigned rd = 0; rd < rounds; ++rd) {
            unsigned ins = 1 + r.u(14);
            PairPicker pp;
            for (unsigned t = 0; t < ins; ++t) {
                Op op;
                op.kind = ADD;
                op.force = true;
                Edge e = pp.pick(r, n, s.m.e, directed, -1);
                op.i = e.first; op.j = e.second;
                Edge key = s.m.key(op.i, op.j);
                if (!value.count(key)) value[key] = genWeight(r, true);
                op.w = value[key];
                std::string err = s.apply(op);
                ++calls; ++callsByKind[ADD];
                if (!err.empty()) { R.violation(cls + "/addEdge(force)/exception", err); return; }
                std::string e2 = checkAll(s, true);
                if (!e2.empty()) { R.violation(cls + "/addEdge(force)/" + observerOf(e2), "after " + op.str() + ": " + e2); return; }
                hh = mix64(hh, s.m.hash());
            }
            Op d; d.kind = DEDUP;
            std::string err = s.apply(d);
            ++calls; ++callsByKind[DEDUP];
            if (!err.empty()) { R.violation(cls + "/removeDuplicateEdges/exception", err); return; }
            std::string e2 = checkAll(s, true);
            if (e2.empty()) e2 = checkWeights(s, true); // total weight and every edge weight of the deduplicated graph
            if (!e2.empty()) { R.violation(cls + "/removeDuplicateEdges/" + observerOf(e2), "after removeDuplicateEdges: " + e2 + "; model " + s.m.str()); return; }
            // the same calls without force
            G u(n);
            for (auto &op : s.hist)
                if (op.kind == ADD) u.addEdge(op.i, op.j, op.w);
            R.count("dedup_vs_unforced_replay_comparisons");
            if (!(s.g == u) || !(u == s.g) || (s.g != u)) {
                R.violation(cls + "/removeDuplicateEdges/operator==-vs-unforced-replay", "graph after removeDuplicateEdges differs from the same calls without force; model " + s.m.str());
                return;
            }
            long double tw = u.getTotalWeight();
            if (tw != (long double)s.g.getTotalWeight()) {
                R.violation(cls + "/removeDuplicateEdges/getTotalWeight-vs-unforced-replay", "total weight differs from the unforced replay");
                return;
            }
        }
        R.digest(snapshot(s.g));
        R.distinct.insert(hh);
        if (sub < 4 && R.samples.size() < 6) R.sample("{\"class\": " + q(cls) + ", \"start_size\": " + std::to_string(n) + ", \"history\": " + s.histJson() + "}");
    }

    // ---- C06 -------------------------------------------------------------------
    bool wideWeights = false; // pair mode: weights of wildly different magnitudes (the running total rounds, the edge weights do not)
    void randomWalk(Rng &r, Subject<G> &s, unsigned len, unsigned style, unsigned maxN) {
        PairPicker pp;
        for (unsigned step = 0; step < len; ++step) {
            Op op = gen(r, s, pp, style, step, len, maxN, true);
            if (wideWeights && (op.kind == ADD || op.kind == SETW)) {
                static const double wide[] = {1e20, -1e20, 3.0, 0.1, 1e-9, -1e15, 7e18, 0.3, 1e300, 2.5e-7, 123456789.125, -0.7};
                op.w = wide[r.u(12)];
            }
            s.apply(op);
            ++calls; ++callsByKind[op.kind];
        }
    }
    // The verdict operator== must give is computed from what the two graphs OBSERVABLY are (vertices, hasEdge for every
    // pair, label / weight / multiplicity of every edge) - not from what their histories were meant to denote - so that a
    // defect in a mutator (another property's business) does not show up here as a wrong ==.
    static bool observablyEqual(const G &a, const G &b) {
        if (a.getSize() != b.getSize()) return false;
        size_t n = a.getSize();
        for (VertexIndex i = 0; i < n; ++i)
            for (VertexIndex j = 0; j < n; ++j) {
                bool ha = a.hasEdge(i, j);
                if (ha != b.hasEdge(i, j)) return false;
                if (ha && a.getEdgeWeight(i, j, false) != b.getEdgeWeight(i, j, false)) return false;
            }
        return true;
    }
    // neighbour lists and hasEdge tell the same story, each neighbour listed once (force is off in this mode)
    static bool selfConsistent(const G &g) {
        size_t n = g.getSize();
        size_t entries = 0, pairs = 0;
        for (VertexIndex i = 0; i < n; ++i) {
            std::set<VertexIndex> seen;
            for (auto j : g.getOutNeighbours(i)) {
                ++entries;
                if (j >= n || !seen.insert(j).second || !g.hasEdge(i, j)) return false;
                if (!directed && !g.hasEdge(j, i)) return false;
            }
            for (VertexIndex j = 0; j < n; ++j)
                if (g.hasEdge(i, j)) {
                    ++pairs;
                    if (!seen.count(j)) return false;
                }
        }
        if (entries != pairs) return false;
        size_t loops = 0;
        for (VertexIndex i = 0; i < n; ++i) loops += g.hasEdge(i, i);
        return g.getEdgeNumber() == (directed ? pairs : (pairs - loops) / 2 + loops);
    }
    // byConstruction: what the generator intended (equal routes / a perturbed copy); only used for the coverage counters
    bool eqAll(const G &a, const G &b, bool byConstruction, const char *what, const std::string &ctx) {
        if (!selfConsistent(a) || !selfConsistent(b)) {
            // lists, hasEdge and the edge count contradict each other: "the set of edges" is not well defined for this
            // object, which is C01/C02/C04's verdict; operator== is not judged on it
            R.count("pairs_skipped_graph_internally_inconsistent");
            return true;
        }
        bool want = observablyEqual(a, b);
        bool r1 = (a == b), r2 = (b == a), n1 = (a != b), n2 = (b != a);
        R.count(want ? "equality_checks_expected_equal" : "equality_checks_expected_unequal");
        if (want != byConstruction) R.count("pairs_whose_observable_relation_differs_from_the_intended_one");
        if (r1 != want || r2 != want || n1 == want || n2 == want) {
            std::ostringstream o;
            o << what << ": the two graphs are observably " << (want ? "equal" : "different") << " (size, hasEdge for every pair, value on every edge) but a==b:" << r1
              << " b==a:" << r2 << " a!=b:" << n1 << " b!=a:" << n2 << "; " << ctx;
            R.violation(cls + "/operator==/" + what, o.str());
            return false;
        }
        return true;
    }
    void runPair(uint64_t sub) {
        Rng r = caseRng(R.args.seed, hashStr(cls + "pair"), sub);
        static const unsigned startN[] = {0, 1, 2, 3, 5};
        unsigned n0 = startN[sub % 5];
        wideWeights = sub % 3 == 1;
        if (wideWeights) R.count("pairs_with_weights_of_wildly_different_magnitude");
        Subject<G> A(n0);
        unsigned lenA = 5 + r.u(50), styleA = r.u(3); // sequenced: argument evaluation order is unspecified
        randomWalk(r, A, lenA, styleA, cfg.maxN);
        const WModel &T = A.m;
        unsigned nb = r.u(T.n + 1);
        Subject<G> B(nb);
        unsigned lenB = r.u(45), styleB = r.u(3);
        randomWalk(r, B, lenB, styleB, T.n);
        while (B.m.n < T.n) {
            Op op; op.kind = RESIZE; op.k = 1 + r.u(T.n - B.m.n);
            B.apply(op);
        }
        std::vector<Op> repair;
        for (auto &kv : B.m.e)
            if (!T.e.count(kv.first)) {
                Op op; op.kind = REMOVE; op.i = kv.first.first; op.j = kv.first.second;
                if (!directed && r.chance(1, 2)) std::swap(op.i, op.j);
                repair.push_back(op);
            }
        for (auto &kv : T.e) {
            auto it = B.m.e.find(kv.first);
            Op op; op.i = kv.first.first; op.j = kv.first.second;
            if (!directed && r.chance(1, 2)) std::swap(op.i, op.j);
            op.w = kv.second.w;
            if (it == B.m.e.end()) {
                op.kind = r.chance(2, 3) ? ADD : SETW;
                repair.push_back(op);
            } else if (it->second.w != kv.second.w) {
                op.kind = SETW;
                repair.push_back(op);
            }
        }
        for (size_t i = repair.size(); i > 1; --i) std::swap(repair[i - 1], repair[r.u((unsigned)i)]);
        for (auto &op : repair) B.apply(op);
        Subject<G> C(T.n);
        {
            std::vector<Op> ops;
            for (auto &kv : T.e) {
                Op op; op.i = kv.first.first; op.j = kv.first.second;
                if (!directed && r.chance(1, 2)) std::swap(op.i, op.j);
                op.kind = ADD; op.w = kv.second.w;
                ops.push_back(op);
            }
            for (size_t i = ops.size(); i > 1; --i) std::swap(ops[i - 1], ops[r.u((unsigned)i)]);
            for (auto &op : ops) C.apply(op);
        }
        R.describeCase = [&] {
            return "{\"class\": " + q(cls) + ", \"history_A\": " + A.histJson() + ", \"start_A\": " + std::to_string(n0) + ", \"history_B\": " + B.histJson() +
                   ", \"start_B\": " + std::to_string(nb) + ", \"history_C\": " + C.histJson() + ", \"denoted\": " + q(T.str()) + "}";
        };
        if (!(B.m.hash() == T.hash() && C.m.hash() == T.hash())) {
            fprintf(stderr, "harness error: repair did not reach target (weighted)\n");
            exit(2);
        }
        std::string ctx = "both histories denote " + T.str();
        if (A.removals + B.removals > 0) R.count("pairs_where_a_history_removed_edges");
        R.distinct.insert(mix64(T.hash(), mix64(hashStr(B.histJson()), hashStr(A.histJson()))));
        if (!eqAll(A.g, A.g, true, "reflexive", ctx)) return;
        if (!eqAll(A.g, B.g, true, "two-histories-same-graph", ctx)) return;
        if (!eqAll(A.g, C.g, true, "history-vs-fresh-build", ctx)) return;
        if (!eqAll(B.g, C.g, true, "history-vs-fresh-build", ctx)) return;
        std::string snapB = snapshot(B.g);
        G D(B.g);
        G E(0);
        E = A.g;
        if (!eqAll(D, B.g, true, "copy-constructed", ctx)) return;
        if (!eqAll(E, A.g, true, "copy-assigned", ctx)) return;
        unsigned n = T.n;
        std::vector<int> feasible;
        if (n > 0 && T.e.size() < (directed ? (size_t)n * n : (size_t)n * (n + 1) / 2)) feasible.push_back(0);
        if (!T.e.empty()) { feasible.push_back(1); feasible.push_back(2); }
        feasible.push_back(3);
        if (feasible.size() >= 4 && feasible[0] == 0) { feasible.push_back(4); feasible.push_back(4); } // move one edge (same count and value)
        int pk = feasible[r.u((unsigned)feasible.size())];
        std::string pdesc;
        if (pk == 0) {
            VertexIndex i, j;
            do { i = r.u(n); j = r.u(n); } while (T.has(i, j));
            D.addEdge(i, j, 1.5);
            pdesc = "one-extra-edge";
        } else if (pk == 1) {
            auto it = T.e.begin();
            std::advance(it, r.u((unsigned)T.e.size()));
            D.removeEdge(it->first.first, it->first.second);
            pdesc = "one-edge-fewer";
        } else if (pk == 2) {
            auto it = T.e.begin();
            std::advance(it, r.u((unsigned)T.e.size()));
            D.setEdgeWeight(it->first.first, it->first.second, it->second.w + 0.125);
            pdesc = "one-weight-differs";
        } else if (pk == 4) {
            auto it = T.e.begin();
            std::advance(it, r.u((unsigned)T.e.size()));
            VertexIndex i, j;
            do { i = r.u(n); j = r.chance(1, 3) ? i : r.u(n); } while (T.has(i, j));
            D.removeEdge(it->first.first, it->first.second);
            D.addEdge(i, j, it->second.w);
            pdesc = "one-edge-moved";
        } else {
            D.resize(n + 1);
            pdesc = "one-extra-vertex";
        }
        R.count("perturbation_" + pdesc);
        if (!eqAll(D, A.g, false, pdesc.c_str(), ctx)) return;
        if (!eqAll(D, B.g, false, "mutated-copy-vs-source", ctx)) return;
        if (!eqAll(B.g, A.g, true, "source-after-copy-mutated", ctx)) return;
        if (snapshot(B.g) != snapB) {
            R.violation(cls + "/copy/source-changed-after-mutating-copy", "the source graph's observable state changed when its copy was mutated; before: " + snapB + " after: " + snapshot(B.g));
            return;
        }
        if (sub < 6 && R.samples.size() < 6)
            R.sample("{\"class\": " + q(cls) + ", \"history_A\": " + A.histJson() + ", \"history_B\": " + B.histJson() + ", \"perturbation\": " + q(pdesc) + "}");
    }
};

template <class G> void registerOne(const char *cls, bool directed) {
    Runner rn;
    rn.family = "weighted";
    rn.cls = cls;
    rn.label = "weight";
    rn.directed = directed;
    std::string c = cls;
    rn.run = [c](Reporter &R, const HistConfig &cfg, uint64_t sub) {
        static std::map<std::string, Monitor<G> *> mons;
        auto &mp = mons[c + cfg.prop];
        if (!mp) mp = new Monitor<G>(R, cfg, c);
        if (sub == (uint64_t)-1) { mp->flush(); return; }
        if (cfg.pairMode) mp->runPair(sub);
        else mp->runHistory(sub);
    };
    static RegisterRunner reg(rn);
}
struct Init {
    Init() {
        registerOne<BaseGraph::DirectedWeightedGraph>("DirectedWeightedGraph", true);
        registerOne<BaseGraph::UndirectedWeightedGraph>("UndirectedWeightedGraph", false);
    }
} init;

} // namespace
} // namespace vf
