// C09: edge-list constructors of the weighted classes. This unit is compiled on
// its own (-DVK_WHICH=0 directed, 1 undirected): if the constructor cannot be
// instantiated the monitor cannot be brought to execution, which the driver
// reports as a C09 violation (<class>/edge-list-constructor/uninstantiable)
// with the compiler output as witness, and links the -DVK_STUB variant instead.
#include "shape.hpp"

#include <deque>
#include <forward_list>
#include <list>

namespace vf {
namespace {
using namespace BaseGraph;
#if VK_WHICH == 0
using G = DirectedWeightedGraph;
const char *CLS = "DirectedWeightedGraph";
const bool DIRECTED = true;
#else
using G = UndirectedWeightedGraph;
const char *CLS = "UndirectedWeightedGraph";
const bool DIRECTED = false;
#endif

uint64_t ctorChecks = 0;
ObsCounters oc;

#ifndef VK_STUB
using T = LabeledEdge<EdgeWeight>;
template <class Cont> std::string wctor(const char *contName, const std::vector<T> &items) {
    Cont c(items.begin(), items.end());
    ++ctorChecks;
    G g(c);
    unsigned n = 0;
    bool any = false;
    for (auto &it : c) {
        any = true;
        n = std::max(n, std::max(std::get<0>(it), std::get<1>(it)) + 1);
    }
    if (!any) n = 0;
    G want(n);
    Expect x;
    x.directed = DIRECTED;
    x.n = n;
    std::map<Edge, double> first;
    for (auto &it : c) {
        want.addEdge(std::get<0>(it), std::get<1>(it), std::get<2>(it));
        Edge k = canon(DIRECTED, std::get<0>(it), std::get<1>(it));
        if (!first.count(k)) first[k] = std::get<2>(it);
        x.e[k] = Expect::Cell();
    }
    std::ostringstream o;
    if (g.getSize() != n) {
        o << "constructor from " << contName << ": size " << g.getSize() << ", expected " << n;
        return o.str();
    }
    std::string e = checkEdgesOnly(g, x, oc);
    if (!e.empty()) return std::string("constructor from ") + contName + ": " + e;
    long double tot = 0;
    for (auto &kv : first) {
        tot += kv.second;
        if (g.getEdgeWeight(kv.first.first, kv.first.second, false) != kv.second) return std::string("constructor from ") + contName + ": weight differs from adding one at a time";
    }
    if ((long double)g.getTotalWeight() != tot) return std::string("constructor from ") + contName + ": getTotalWeight differs";
    if (!(g == want) || !(want == g) || (g != want)) return std::string("constructor from ") + contName + ": result != graph built by adding the edges one at a time";
    return "";
}
#endif

void run(Reporter &R, const std::string &prop, const GraphSpec &s, unsigned variant, uint64_t idx) {
    if (idx == (uint64_t)-1) {
        R.count("weighted_constructor_checks", ctorChecks);
        oc.flush(R);
        ctorChecks = 0;
        return;
    }
    if (prop != "C09") return;
#ifndef VK_STUB
    Rng r = caseRng(R.args.seed, hashStr(std::string(CLS) + "wctor"), idx);
    std::vector<T> items;
    for (auto &ed : insertionOrder(s, variant, r)) items.push_back(T{ed.first, ed.second, (double)(1 + stampOf(canon(DIRECTED, ed.first, ed.second), 5) % 64) / 8.0});
    if (!items.empty() && r.chance(1, 2)) {
        T dup = items[r.u((unsigned)items.size())];
        std::get<2>(dup) += 0.5; // same pair again with another weight: the first one added wins
        items.push_back(dup);
    }
    std::string e;
    try {
        if ((e = wctor<std::vector<T>>("std::vector", items)) == "" && (e = wctor<std::list<T>>("std::list", items)) == "" && (e = wctor<std::deque<T>>("std::deque", items)) == "" &&
            (e = wctor<std::forward_list<T>>("std::forward_list", items)) == "" && (e = wctor<std::set<T>>("std::set", items)) == "")
            e = wctor<std::multiset<T>>("std::multiset", items);
    } catch (std::exception &ex) {
        e = std::string("constructor threw ") + ex.what();
    }
    if (!e.empty()) {
        size_t p = e.find(": ");
        std::string ob = p == std::string::npos ? e : e.substr(p + 2);
        ob = ob.substr(0, ob.find_first_of(":("));
        R.violation(std::string(CLS) + "/edge-list-constructor/" + ob, e + " on " + s.str());
    }
#else
    (void)s; (void)variant;
#endif
}
struct Init {
    Init() {
        static RegisterShape rs({std::string(CLS) + "#edge-list-constructor", DIRECTED, run});
    }
} init;
} // namespace
} // namespace vf
