// C07 cells for LabeledDirectedGraph<L> / LabeledUndirectedGraph<L>, compiled
// per label kind (-DVK_LABEL=0 NoLabel, 1 int, 5 std::string, 6 struct).
#include "reject.hpp"

#ifndef VK_LABEL
#define VK_LABEL 1
#endif

namespace vf {
namespace {
#if VK_LABEL == 0
using L = BaseGraph::NoLabel;
#elif VK_LABEL == 1
using L = int;
#elif VK_LABEL == 5
using L = std::string;
#else
using L = UserLabel;
#endif
using namespace BaseGraph;
namespace alg = BaseGraph::algorithms;

template <class G> void buildState(G &g, Rng &r, unsigned variant) {
    constexpr bool directed = IsDirected<G>::value;
    unsigned n = 0;
    switch (variant) {
    case 0: n = 0; break;
    case 1: n = 1; break;
    case 2: n = 1; break;
    case 3: n = 3; break;
    case 8: n = 40; break;
    case 9: n = 24; break;
    default: n = 2 + r.u(5);
    }
    g.resize(n);
    if (variant == 2) g.addEdge(0, 0, LT<L>::make(7));
    if (variant == 8) { // a hub with 35+ neighbours
        for (unsigned t = 0; t < n; ++t)
            if (t % 8 != 3) g.addEdge(5, t, LT<L>::make(300 + t));
    } else if (variant == 9) { // dense
        for (unsigned a = 0; a < n; ++a)
            for (unsigned b = 0; b < n; ++b)
                if (r.chance(1, 2)) g.addEdge(a, b, LT<L>::make(400 + a * n + b));
    } else if (variant >= 4) {
        unsigned m = 1 + r.u(n * 2);
        for (unsigned t = 0; t < m; ++t) {
            VertexIndex i = r.u(n), j = r.chance(1, 6) ? i : r.u(n);
            g.addEdge(i, j, LT<L>::make(100 + t));
        }
        if (variant == 7) g.removeVertexFromEdgeList(r.u(n)); // a state that went through a removal
    }
    (void)directed;
}
template <class G> void mutateValid(G &g, Rng &r) {
    unsigned n = (unsigned)g.getSize();
    if (n == 0) return;
    VertexIndex i = r.u(n), j = r.u(n);
    if (r.chance(2, 3)) g.addEdge(i, j, LT<L>::make(1000 + r.u(1000)));
    else g.removeEdge(i, j);
}

template <class G> void commonCells(std::vector<Cell<G>> &c, std::vector<IaCell<G>> &ia) {
    c.push_back({"addEdge(i,j,label,force)", 2, 2, [](G &g, VertexIndex a, VertexIndex b, unsigned f) { g.addEdge(a, b, LT<L>::make(5), f != 0); }});
    c.push_back({"addEdge(i,j,force)", 2, 3, [](G &g, VertexIndex a, VertexIndex b, unsigned f) {
                     if (f == 2) g.addEdge(a, b);
                     else g.addEdge(a, b, f != 0);
                 }});
    c.push_back({"hasEdge(i,j)", 2, 1, [](G &g, VertexIndex a, VertexIndex b, unsigned) { (void)g.hasEdge(a, b); }});
    c.push_back({"hasEdge(i,j,label)", 2, 1, [](G &g, VertexIndex a, VertexIndex b, unsigned) { (void)g.hasEdge(a, b, LT<L>::make(5)); }});
    c.push_back({"removeEdge(i,j)", 2, 1, [](G &g, VertexIndex a, VertexIndex b, unsigned) { g.removeEdge(a, b); }});
    c.push_back({"getEdgeLabel(i,j,throwIfInexistent)", 2, 3, [](G &g, VertexIndex a, VertexIndex b, unsigned f) {
                     if (f == 2) (void)g.getEdgeLabel(a, b);
                     else (void)g.getEdgeLabel(a, b, f != 0);
                 }});
    c.push_back({"setEdgeLabel(i,j,label,force)", 2, 3, [](G &g, VertexIndex a, VertexIndex b, unsigned f) {
                     if (f == 2) g.setEdgeLabel(a, b, LT<L>::make(6));
                     else g.setEdgeLabel(a, b, LT<L>::make(6), f != 0);
                 }});
    c.push_back({"getOutNeighbours(v)", 1, 1, [](G &g, VertexIndex a, VertexIndex, unsigned) { (void)g.getOutNeighbours(a); }});
    c.push_back({"removeVertexFromEdgeList(v)", 1, 1, [](G &g, VertexIndex a, VertexIndex, unsigned) { g.removeVertexFromEdgeList(a); }});
    c.push_back({"assertVertexInRange(v)", 1, 1, [](G &g, VertexIndex a, VertexIndex, unsigned) { g.assertVertexInRange(a); }});
    // subgraph extraction: the bad vertex alone, and among valid ones
    c.push_back({"getSubgraph(g,S)", 1, 2, [](G &g, VertexIndex a, VertexIndex, unsigned f) {
                     std::unordered_set<VertexIndex> s{a};
                     if (f) for (VertexIndex v = 0; v < g.getSize(); ++v) s.insert(v);
                     (void)alg::getSubgraph(g, s);
                 }});
    c.push_back({"getSubgraphWithRemap(g,S)", 1, 2, [](G &g, VertexIndex a, VertexIndex, unsigned f) {
                     std::unordered_set<VertexIndex> s{a};
                     if (f) for (VertexIndex v = 0; v < g.getSize(); ++v) s.insert(v);
                     (void)alg::getSubgraphWithRemap(g, s);
                 }});
    // path searches
    c.push_back({"findVertexPredecessors(g,v)", 1, 1, [](G &g, VertexIndex a, VertexIndex, unsigned) { (void)alg::findVertexPredecessors(g, a); }});
    c.push_back({"findAllVertexPredecessors(g,v)", 1, 1, [](G &g, VertexIndex a, VertexIndex, unsigned) { (void)alg::findAllVertexPredecessors(g, a); }});
    c.push_back({"findGeodesicsFromVertex(g,v)", 1, 1, [](G &g, VertexIndex a, VertexIndex, unsigned) { (void)alg::findGeodesicsFromVertex(g, a); }});
    c.push_back({"findAllGeodesicsFromVertex(g,v)", 1, 1, [](G &g, VertexIndex a, VertexIndex, unsigned) { (void)alg::findAllGeodesicsFromVertex(g, a); }});
    c.push_back({"findGeodesics(g,s,d)", 2, 1, [](G &g, VertexIndex a, VertexIndex b, unsigned) { (void)alg::findGeodesics(g, a, b); }});
    c.push_back({"findAllGeodesics(g,s,d)", 2, 1, [](G &g, VertexIndex a, VertexIndex b, unsigned) { (void)alg::findAllGeodesics(g, a, b); }});

    ia.push_back({"resize(smaller)", 2, 2, [](G &g, VertexIndex, VertexIndex, unsigned f) { g.resize(f ? 0 : g.getSize() - 1); }});
    ia.push_back({"setEdgeLabel(missing-edge,unforced)", 2, 1, [](G &g, VertexIndex a, VertexIndex b, unsigned f) {
                      if (f) g.setEdgeLabel(a, b, LT<L>::make(9), false);
                      else g.setEdgeLabel(a, b, LT<L>::make(9));
                  }});
    if (LT<L>::labelled)
        ia.push_back({"getEdgeLabel(missing-edge)", 2, 1, [](G &g, VertexIndex a, VertexIndex b, unsigned f) {
                          if (f) (void)g.getEdgeLabel(a, b, true);
                          else (void)g.getEdgeLabel(a, b);
                      }});
}

RejectCounters rc;

void regDirected() {
    using G = LabeledDirectedGraph<L>;
    static std::vector<Cell<G>> c;
    static std::vector<IaCell<G>> ia;
    commonCells<G>(c, ia);
    c.push_back({"addReciprocalEdge(i,j,label,force)", 2, 2, [](G &g, VertexIndex a, VertexIndex b, unsigned f) { g.addReciprocalEdge(a, b, LT<L>::make(5), f != 0); }});
    c.push_back({"addReciprocalEdge(i,j,force)", 2, 3, [](G &g, VertexIndex a, VertexIndex b, unsigned f) {
                     if (f == 2) g.addReciprocalEdge(a, b);
                     else g.addReciprocalEdge(a, b, f != 0);
                 }});
    c.push_back({"getInDegree(v)", 1, 1, [](G &g, VertexIndex a, VertexIndex, unsigned) { (void)g.getInDegree(a); }});
    c.push_back({"getOutDegree(v)", 1, 1, [](G &g, VertexIndex a, VertexIndex, unsigned) { (void)g.getOutDegree(a); }});
    for (auto &x : ia)
        if (x.entry.find("missing-edge") != std::string::npos) x.needs = 1;
    std::string cls = std::string("LabeledDirectedGraph<") + LT<L>::name() + ">";
    static RegisterReject reg({cls, [cls](Reporter &R, uint64_t sub, bool isolate) {
                                   if (sub == (uint64_t)-1) { flushReject(R, rc); return; }
                                   runRejectCase<G>(R, cls, c, ia, buildState<G>, mutateValid<G>, sub, isolate, rc);
                               }});
}
void regUndirected() {
    using G = LabeledUndirectedGraph<L>;
    static std::vector<Cell<G>> c;
    static std::vector<IaCell<G>> ia;
    commonCells<G>(c, ia);
    c.push_back({"getNeighbours(v)", 1, 1, [](G &g, VertexIndex a, VertexIndex, unsigned) { (void)g.getNeighbours(a); }});
    c.push_back({"getDegree(v,countSelfLoopsTwice)", 1, 3, [](G &g, VertexIndex a, VertexIndex, unsigned f) {
                     if (f == 2) (void)g.getDegree(a);
                     else (void)g.getDegree(a, f != 0);
                 }});
    for (auto &x : ia)
        if (x.entry.find("missing-edge") != std::string::npos) x.needs = 1;
    std::string cls = std::string("LabeledUndirectedGraph<") + LT<L>::name() + ">";
    static RegisterReject reg({cls, [cls](Reporter &R, uint64_t sub, bool isolate) {
                                   if (sub == (uint64_t)-1) { return; }
                                   runRejectCase<G>(R, cls, c, ia, buildState<G>, mutateValid<G>, sub, isolate, rc);
                               }});
}
struct Init {
    Init() {
        regDirected();
        regUndirected();
    }
} init;
} // namespace
} // namespace vf
