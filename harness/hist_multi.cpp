// History monitor for DirectedMultigraph / UndirectedMultigraph.
// Serves C04, C06, C16 (multigraph part).
#include "hist.hpp"
#include "snapshot.hpp"

namespace vf {
namespace {

enum Kind { ADD, ADDREC, ADDM, ADDRECM, REMOVE, REMOVEM, SETM, SETM0, LOOPS, VERTEX, CLEAR, RESIZE, DEDUP, KIND_COUNT };
const char *kindName(int k) {
    static const char *n[] = {"addEdge", "addReciprocalEdge", "addMultiedge", "addReciprocalMultiedge", "removeEdge", "removeMultiedge",
                              "setEdgeMultiplicity", "setEdgeMultiplicity(0)", "removeSelfLoops", "removeVertexFromEdgeList", "clearEdges", "resize",
                              "removeDuplicateEdges"};
    return n[k];
}
struct Op {
    int kind = 0;
    VertexIndex i = 0, j = 0;
    unsigned k = 0;
    bool force = false;
    bool rejected = false; // out-of-range index or shrinking resize: must throw, denotes no change
    std::string str() const {
        std::ostringstream o;
        if (rejected) o << "rejected: ";
        if (rejected && kind == RESIZE) {
            o << "resize(" << k << ")";
            return o.str();
        }
        switch (kind) {
        case ADD: o << "addEdge(" << i << "," << j << ")"; break;
        case ADDREC: o << "addReciprocalEdge(" << i << "," << j << ")"; break;
        case ADDM: o << "addMultiedge(" << i << "," << j << "," << k << (force ? ",force=true)" : ")"); break;
        case ADDRECM: o << "addReciprocalMultiedge(" << i << "," << j << "," << k << ")"; break;
        case REMOVE: o << "removeEdge(" << i << "," << j << ")"; break;
        case REMOVEM: o << "removeMultiedge(" << i << "," << j << "," << k << ")"; break;
        case SETM:
        case SETM0: o << "setEdgeMultiplicity(" << i << "," << j << "," << k << ")"; break;
        case LOOPS: o << "removeSelfLoops()"; break;
        case VERTEX: o << "removeVertexFromEdgeList(" << i << ")"; break;
        case CLEAR: o << "clearEdges()"; break;
        case RESIZE: o << "resize(size+" << k << ")"; break;
        case DEDUP: o << "removeDuplicateEdges()"; break;
        }
        return o.str();
    }
};

struct MModel {
    bool directed = true;
    unsigned n = 0;
    struct Cell {
        unsigned mult = 1, copies = 1;
    };
    std::map<Edge, Cell> e;
    Edge key(VertexIndex i, VertexIndex j) const { return canon(directed, i, j); }
    bool has(VertexIndex i, VertexIndex j) const { return e.count(key(i, j)) != 0; }
    unsigned mult(VertexIndex i, VertexIndex j) const {
        auto it = e.find(key(i, j));
        return it == e.end() ? 0 : it->second.mult;
    }
    size_t total() const {
        size_t t = 0;
        for (auto &kv : e) t += (size_t)kv.second.mult * kv.second.copies;
        return t;
    }
    Expect expect() const {
        Expect x;
        x.directed = directed;
        x.n = n;
        for (auto &kv : e) {
            Expect::Cell c;
            c.copies = kv.second.copies;
            c.unit = kv.second.mult;
            x.e[kv.first] = c;
        }
        return x;
    }
    uint64_t hash() const { return expect().hash(); }
    std::string str() const { return expect().str(); }
};

template <class G> struct Subject {
    static constexpr bool directed = IsDirected<G>::value;
    G g;
    MModel m;
    std::vector<Op> hist;
    std::map<Edge, int> ghosts;
    unsigned removals = 0;
    bool notRejected = false; // a call that had to be rejected was not (C07's verdict): the history is abandoned
    explicit Subject(unsigned n0) : g(n0) {
        m.directed = directed;
        m.n = n0;
    }
    void gone(Edge k, int how) {
        if (m.e.erase(k)) {
            ghosts[k] = how;
            ++removals;
        }
    }
    void modelAdd(VertexIndex i, VertexIndex j, unsigned k, bool force) {
        if (k == 0) return;
        Edge key = m.key(i, j);
        auto it = m.e.find(key);
        if (it == m.e.end()) {
            MModel::Cell c;
            c.mult = k;
            m.e[key] = c;
            ghosts.erase(key);
        } else if (force) {
            it->second.copies++;
            it->second.mult = k; // generator keeps one value per pair
        } else {
            it->second.mult += k;
        }
    }
    bool isNoop(const Op &op) const {
        if (op.rejected) return true;
        switch (op.kind) {
        case ADDM:
        case ADDRECM: return op.k == 0;
        case REMOVE: return !m.has(op.i, op.j);
        case REMOVEM: return !m.has(op.i, op.j) || op.k == 0;
        case SETM0: return !m.has(op.i, op.j);
        case SETM: return m.mult(op.i, op.j) == op.k;
        case LOOPS:
            for (auto &kv : m.e)
                if (kv.first.first == kv.first.second) return false;
            return true;
        case VERTEX:
            for (auto &kv : m.e)
                if (kv.first.first == op.i || kv.first.second == op.i) return false;
            return true;
        case CLEAR: return m.e.empty();
        case RESIZE: return op.k == 0;
        case DEDUP:
            for (auto &kv : m.e)
                if (kv.second.copies > 1) return false;
            return true;
        }
        return false;
    }
    std::string apply(const Op &op) {
        hist.push_back(op);
        std::string what;
        Exc ex = classify([&] {
            switch (op.kind) {
            case ADD: g.addEdge(op.i, op.j); break;
            case ADDREC:
                if constexpr (directed) g.addReciprocalEdge(op.i, op.j);
                break;
            case ADDM:
                if (op.force) g.addMultiedge(op.i, op.j, op.k, true);
                else g.addMultiedge(op.i, op.j, op.k);
                break;
            case ADDRECM:
                if constexpr (directed) g.addReciprocalMultiedge(op.i, op.j, op.k);
                break;
            case REMOVE: g.removeEdge(op.i, op.j); break;
            case REMOVEM: g.removeMultiedge(op.i, op.j, op.k); break;
            case SETM:
            case SETM0: g.setEdgeMultiplicity(op.i, op.j, op.k); break;
            case LOOPS: g.removeSelfLoops(); break;
            case VERTEX: g.removeVertexFromEdgeList(op.i); break;
            case CLEAR: g.clearEdges(); break;
            case RESIZE: g.resize(op.rejected ? op.k : g.getSize() + op.k); break;
            case DEDUP: g.removeDuplicateEdges(); break;
            }
        }, &what);
        if (op.rejected) {
            if (ex != (op.kind == RESIZE ? EX_INVALID_ARGUMENT : EX_OUT_OF_RANGE)) notRejected = true;
            return "";
        }
        if (ex != EX_NONE) return std::string("valid call threw ") + excName(ex) + " (" + what + ")";
        switch (op.kind) {
        case ADD: modelAdd(op.i, op.j, 1, false); break;
        case ADDREC:
            modelAdd(op.i, op.j, 1, false);
            modelAdd(op.j, op.i, 1, false);
            break;
        case ADDM: modelAdd(op.i, op.j, op.k, op.force); break;
        case ADDRECM:
            modelAdd(op.i, op.j, op.k, false);
            modelAdd(op.j, op.i, op.k, false);
            break;
        case REMOVE:
        case REMOVEM: {
            unsigned k = op.kind == REMOVE ? 1 : op.k;
            auto it = m.e.find(m.key(op.i, op.j));
            if (it != m.e.end()) {
                if (it->second.mult > k) it->second.mult -= k;
                else gone(it->first, op.kind == REMOVE ? G_REMOVE : G_REMOVE_MULTI);
            }
            break;
        }
        case SETM0: gone(m.key(op.i, op.j), G_MULT_ZERO); break;
        case SETM: {
            Edge key = m.key(op.i, op.j);
            auto it = m.e.find(key);
            if (it == m.e.end()) modelAdd(op.i, op.j, op.k, false);
            else it->second.mult = op.k;
            break;
        }
        case LOOPS: {
            std::vector<Edge> v;
            for (auto &kv : m.e)
                if (kv.first.first == kv.first.second) v.push_back(kv.first);
            for (auto &k : v) gone(k, G_LOOPS);
            break;
        }
        case VERTEX: {
            std::vector<std::pair<Edge, int>> v;
            for (auto &kv : m.e)
                if (kv.first.first == op.i) v.push_back({kv.first, G_VERTEX_SRC});
                else if (kv.first.second == op.i) v.push_back({kv.first, G_VERTEX_DST});
            for (auto &k : v) gone(k.first, k.second);
            break;
        }
        case CLEAR: {
            std::vector<Edge> v;
            for (auto &kv : m.e) v.push_back(kv.first);
            for (auto &k : v) gone(k, G_CLEAR);
            break;
        }
        case RESIZE: m.n += op.k; break;
        case DEDUP:
            for (auto &kv : m.e) kv.second.copies = 1;
            break;
        }
        return "";
    }
    std::string histJson() const {
        std::string o = "[";
        for (size_t i = 0; i < hist.size(); ++i) o += (i ? "," : "") + q(hist[i].str());
        return o + "]";
    }
};

template <class G> struct Monitor {
    static constexpr bool directed = IsDirected<G>::value;
    Reporter &R;
    const HistConfig &cfg;
    std::string cls;
    ObsCounters oc;
    uint64_t callsByKind[KIND_COUNT] = {0};
    uint64_t rejectedCalls = 0, rejectedThenGrown = 0, abandonedNotRejected = 0;
    uint64_t calls = 0, multPresent = 0, multAbsent = 0, totals = 0, noopChecks = 0, bigMultiplicities = 0, scaleHistories = 0, maxDegreeSeen = 0, longHistories = 0;
    uint64_t after[G_COUNT] = {0};
    uint64_t setOn[4] = {0}; // setEdgeMultiplicity on edges of multiplicity 0,1,2,>2
    Monitor(Reporter &R, const HistConfig &cfg, std::string cls) : R(R), cfg(cfg), cls(std::move(cls)) {}

    void flush() {
        oc.flush(R);
        R.count("calls_total", calls);
        for (int k = 0; k < KIND_COUNT; ++k)
            if (callsByKind[k]) R.count(std::string("calls_") + kindName(k), callsByKind[k]);
        R.count("mult_reads_present_edge", multPresent);
        R.count("calls_with_multiplicity_of_2_to_the_16_or_more", bigMultiplicities);
        bigMultiplicities = 0;
        R.count("mult_reads_absent_pair", multAbsent);
        R.count("total_edge_number_comparisons", totals);
        R.count("noop_exactness_checks", noopChecks);
        R.count("rejected_calls_inside_histories", rejectedCalls);
        R.count("rejected_calls_followed_by_resize_making_the_index_valid", rejectedThenGrown);
        R.count("histories_abandoned_call_not_rejected", abandonedNotRejected);
        rejectedCalls = rejectedThenGrown = abandonedNotRejected = 0;
        R.count("long_histories_2000_to_4500_calls", longHistories);
        longHistories = 0;
        R.count("scale_histories_12_to_70_vertices", scaleHistories);
        { uint64_t &m1 = R.counter("largest_neighbour_list_seen_max"); m1 = std::max(m1, maxDegreeSeen); }
        scaleHistories = 0;
        for (int g = 1; g < G_COUNT; ++g)
            if (after[g]) R.count(std::string("mult_reads_after_") + goneName(g), after[g]);
        static const char *so[] = {"absent", "mult1", "mult2", "mult3plus"};
        for (int i = 0; i < 4; ++i)
            if (setOn[i]) R.count(std::string("setEdgeMultiplicity_on_") + so[i], setOn[i]);
        calls = multPresent = multAbsent = totals = noopChecks = 0;
        for (auto &c : callsByKind) c = 0;
        for (auto &c : after) c = 0;
        for (auto &c : setOn) c = 0;
    }

    std::string checkMult(const Subject<G> &s) {
        std::ostringstream o;
        unsigned n = s.m.n;
        try {
            ++totals;
            size_t tw = s.m.total();
            if (s.g.getTotalEdgeNumber() != tw) {
                o << "getTotalEdgeNumber: expected " << tw << " got " << s.g.getTotalEdgeNumber();
                return o.str();
            }
            for (VertexIndex i = 0; i < n; ++i)
                for (VertexIndex j = 0; j < n; ++j) {
                    unsigned want = s.m.mult(i, j);
                    unsigned got = s.g.getEdgeMultiplicity(i, j);
                    if (want) ++multPresent;
                    else {
                        ++multAbsent;
                        auto gh = s.ghosts.find(s.m.key(i, j));
                        ++after[gh == s.ghosts.end() ? G_NONE : gh->second];
                    }
                    if (got != want) {
                        auto gh = s.ghosts.find(s.m.key(i, j));
                        o << "getEdgeMultiplicity(" << i << "," << j << "): expected " << want << " got " << got;
                        if (!want && gh != s.ghosts.end()) o << " (edge gone by " << goneName(gh->second) << ")";
                        return o.str();
                    }
                    if ((got == 0) != !s.g.hasEdge(i, j)) {
                        o << "getEdgeMultiplicity(" << i << "," << j << ")==0 disagrees with hasEdge";
                        return o.str();
                    }
                }
        } catch (std::exception &ex) {
            return std::string("getEdgeMultiplicity/getTotalEdgeNumber-threw: ") + ex.what();
        }
        return "";
    }
    static std::string observerOf(const std::string &msg) {
        size_t p = msg.find_first_of(":(");
        return p == std::string::npos ? msg : msg.substr(0, p);
    }
    std::string checkAll(const Subject<G> &s) {
        bool dup = false;
        for (auto &kv : s.m.e)
            if (kv.second.copies > 1) dup = true;
        if (cfg.obsStruct) {
            std::string e = checkStructure(s.g, s.m.expect(), oc, !dup, !dup);
            if (!e.empty()) return e;
        }
        if (cfg.obsLabel && !dup) {
            std::string e = checkMult(s);
            if (!e.empty()) return e;
        }
        return "";
    }

    // would this call push a multiplicity past UINT_MAX (either orientation of a reciprocal add)?
    static bool wouldOverflow(const Subject<G> &s, const Op &op) {
        if (op.rejected) return false;
        if (!(op.kind == ADD || op.kind == ADDREC || op.kind == ADDM || op.kind == ADDRECM)) return false;
        uint64_t k = (op.kind == ADD || op.kind == ADDREC) ? 1 : op.k;
        bool both = op.kind == ADDREC || op.kind == ADDRECM;
        uint64_t extra = (both && op.i == op.j) ? k : 0; // a reciprocal add on a self-loop adds twice
        return (uint64_t)s.m.mult(op.i, op.j) + k + extra > 0xffffffffULL || (both && (uint64_t)s.m.mult(op.j, op.i) + k > 0xffffffffULL);
    }
    // a call the library must reject (see pickRejected), drawn from the calls the property lists
    Op genRejected(Rng &r, const Subject<G> &s, unsigned &growBy) {
        Op op;
        op.rejected = true;
        RejectedArgs x = pickRejected(r, s.m.n);
        growBy = x.growBy;
        if (x.shrink) {
            op.kind = RESIZE;
            op.k = x.newSize;
            return op;
        }
        op.i = x.a;
        op.j = x.b;
        static const int kinds[] = {ADD, ADDM, ADDM, REMOVE, REMOVEM, SETM, SETM, SETM0, VERTEX, ADDREC, ADDRECM};
        op.kind = kinds[r.u(directed ? 11 : 9)];
        op.k = op.kind == SETM0 ? 0 : 1 + r.u(4);
        if (op.kind == VERTEX && op.i < s.m.n) op.i = op.j;
        return op;
    }
    Op gen(Rng &r, Subject<G> &s, PairPicker &pp, unsigned style, unsigned step, unsigned len, unsigned maxN) {
        Op op;
        unsigned n = s.m.n;
        unsigned wAdd = 18, wAddM = 18, wRec = directed ? 6 : 0, wRecM = directed ? 5 : 0, wRem = 12, wRemM = 14, wSet = 14, wSet0 = 5, wLoops = 4, wVertex = 6,
                 wClear = 2, wResize = 4;
        if (style == 1) {
            bool addPhase = (step * 4 / (len + 1)) % 2 == 0;
            if (addPhase) { wRem = 3; wRemM = 4; wVertex = 1; wClear = 0; wSet0 = 1; }
            else { wAdd = 5; wAddM = 5; wRec = wRec ? 1 : 0; wRecM = wRecM ? 1 : 0; wRem = 25; wRemM = 25; wVertex = 12; wLoops = 8; wSet0 = 10; }
        } else if (style == 2) {
            unsigned ph = step % 16;
            if (ph >= 9 && ph < 11) { wAdd = wAddM = wRec = wRecM = wSet = 0; wVertex = 30; wClear = 20; wLoops = 20; wSet0 = 10; }
            else { wRem = 2; wRemM = 3; wVertex = 0; wClear = 0; wLoops = 0; wSet0 = 1; }
        }
        if (style == 4) { wAdd = 22; wAddM = 20; wRem = 18; wRemM = 18; wSet = 10; wSet0 = 6; wLoops = 3; wVertex = 4; wClear = 0; wResize = 1; }
        if (style == 3) { wAdd = 30; wAddM = 25; wRem = 14; wRemM = 14; wSet = 8; wSet0 = 4; wLoops = 1; wVertex = 1; wClear = 0; wResize = 1; }
        if (n >= maxN) wResize = 0;
        if (n == 0) { wAdd = wAddM = wRec = wRecM = wRem = wRemM = wSet = wSet0 = wVertex = 0; wResize = 60; }
        unsigned tot = wAdd + wAddM + wRec + wRecM + wRem + wRemM + wSet + wSet0 + wLoops + wVertex + wClear + wResize;
        unsigned x = r.u(tot);
        auto take = [&](unsigned w) { if (x < w) return true; x -= w; return false; };
        auto pick = [&](int want) {
            Edge e = pp.pick(r, n, s.m.e, directed, want);
            op.i = e.first; op.j = e.second;
        };
        if (take(wAdd)) { op.kind = ADD; pick(-1); }
        else if (take(wAddM)) {
            op.kind = ADDM; pick(-1); op.k = r.u(5);
            // now and then a large multiplicity ("all multiplicity arguments"); the per-pair sum stays below 2^32
            if (r.chance(1, 25)) {
                static const unsigned big[] = {255, 256, 65535, 65536, 1u << 24, 1u << 30, (1u << 31) - 1, 1u << 31};
                unsigned k = big[r.u(8)];
                if ((uint64_t)s.m.mult(op.i, op.j) + k <= 0xffffffffULL) { op.k = k; ++bigMultiplicities; }
            }
        }
        else if (take(wRec)) { op.kind = ADDREC; pick(-1); }
        else if (take(wRecM)) { op.kind = ADDRECM; pick(-1); op.k = r.u(5); }
        else if (take(wRem)) { op.kind = REMOVE; pick(1); }
        else if (take(wRemM)) { op.kind = REMOVEM; pick(1); op.k = r.u(6); }
        else if (take(wSet)) {
            op.kind = SETM; pick(r.chance(2, 3) ? 1 : -1); op.k = 1 + r.u(6);
            if (r.chance(1, 25)) {
                static const unsigned big[] = {65536, 1u << 30, 1u << 31, 0xfffffffeu, 0xffffffffu, (1u << 31) + 7};
                op.k = big[r.u(6)];
                ++bigMultiplicities;
            }
        }
        else if (take(wSet0)) { op.kind = SETM0; pick(1); op.k = 0; }
        else if (take(wLoops)) op.kind = LOOPS;
        else if (take(wVertex)) { op.kind = VERTEX; pick(1); if (r.chance(1, 2)) op.i = op.j; }
        else if (take(wClear)) op.kind = CLEAR;
        else {
            op.kind = RESIZE;
            op.k = r.u(3);
            if (n == 0 && op.k == 0 && r.chance(3, 4)) op.k = 1 + r.u(3);
            if (n + op.k > maxN) op.k = maxN - n;
        }
        // EdgeMultiplicity is a 32-bit unsigned: an addition that would leave its range is outside any claim
        if (wouldOverflow(s, op)) {
            op.kind = SETM;
            op.k = 3;
        }
        return op;
    }

    void runHistory(uint64_t sub) {
        if (cfg.force) return runForced(sub);
        Rng r = caseRng(R.args.seed, hashStr(cls + cfg.prop), sub);
        static const unsigned startN[] = {0, 1, 2, 3, 5};
        unsigned style = sub % 3;
        unsigned n0 = startN[(sub / 3) % 5];
        unsigned len = 8 + r.u(cfg.maxLen - 7);
        unsigned maxN = cfg.maxN, checkEvery = 1;
        PairPicker pp;
        bool scale = cfg.scaleEvery && sub % cfg.scaleEvery == 7;
        if (scale) {
            static const unsigned bigN[] = {12, 24, 40, 70};
            n0 = bigN[(sub / cfg.scaleEvery) % 4];
            maxN = n0 + 2;
            len = 250 + r.u(n0 * 7);
            checkEvery = 8;
            style = 3;
            pp.hub = (int)r.u(n0);
            ++scaleHistories;
        } else if (cfg.scaleEvery && sub % (cfg.scaleEvery * 4) == 11) {
            len = 2000 + r.u(2500);
            checkEvery = 16;
            n0 = 3 + r.u(4);
            style = 4; // steady churn without clearEdges: hundreds of edges come and go on one object
            ++longHistories;
        }
        Subject<G> s(n0);
        Op prevOp;
        bool havePrev = false;
        unsigned pendingGrow = 0;
        bool withRejected = sub % 3 == 1; // every third history has calls in it that the library must reject
        R.describeCase = [&] {
            return "{\"class\": " + q(cls) + ", \"start_size\": " + std::to_string(n0) + ", \"history\": " + s.histJson() + ", \"model_after\": " + q(s.m.str()) + "}";
        };
        std::string e0 = checkAll(s);
        if (!e0.empty()) {
            R.violation(cls + "/constructor/" + observerOf(e0), e0);
            return;
        }
        uint64_t hh = n0;
        for (unsigned step = 0; step < len; ++step) {
            Op op = gen(r, s, pp, style, step, len, maxN);
            if (havePrev && r.chance(1, 12) && !wouldOverflow(s, prevOp)) op = prevOp; // the same call twice in a row (unless it would leave the 32-bit multiplicity range)
            if (withRejected) {
                if (pendingGrow) {
                    op = Op();
                    op.kind = RESIZE;
                    op.k = pendingGrow;
                    pendingGrow = 0;
                    ++rejectedThenGrown;
                } else if (r.chance(1, checkEvery > 1 ? 40 : 9)) {
                    unsigned growBy = 0;
                    op = genRejected(r, s, growBy);
                    ++rejectedCalls;
                    if (growBy && s.m.n + growBy <= maxN + 4 && r.chance(2, 3)) pendingGrow = growBy;
                }
            }
            if (!op.rejected) {
                prevOp = op;
                havePrev = true;
            }
            bool noop = !op.rejected && s.isNoop(op) && (op.kind == REMOVE || op.kind == REMOVEM || op.kind == SETM0) && !s.m.has(op.i, op.j); // removing an absent edge changes nothing
            std::vector<std::vector<VertexIndex>> before;
            if (noop) before = orderedLists(s.g);
            if (!op.rejected && (op.kind == SETM || op.kind == SETM0)) {
                unsigned cur = s.m.mult(op.i, op.j);
                ++setOn[cur > 3 ? 3 : cur];
            }
            std::string err = s.apply(op);
            ++calls;
            ++callsByKind[op.kind];
            if (s.notRejected) {
                ++abandonedNotRejected;
                return;
            }
            if (!err.empty()) {
                R.violation(cls + "/" + kindName(op.kind) + "/exception", err);
                return;
            }
            if (noop) {
                ++noopChecks;
                if (orderedLists(s.g) != before) {
                    R.violation(cls + "/" + kindName(op.kind) + "/no-op-changed-neighbour-lists", "a call that must change nothing (" + op.str() + ") altered the neighbour lists");
                    return;
                }
            }
            if (checkEvery > 1 && step % checkEvery != 0 && step + 1 != len) continue;
            std::string e = checkAll(s);
            if (!e.empty()) {
                R.violation(cls + "/" + kindName(op.kind) + "/" + observerOf(e), "after " + op.str() + ": " + e);
                return;
            }
            if (scale)
                for (VertexIndex v = 0; v < s.m.n; ++v) maxDegreeSeen = std::max<uint64_t>(maxDegreeSeen, s.g.getOutNeighbours(v).size());
            uint64_t sh = s.m.hash();
            R.states.insert(sh);
            hh = mix64(hh, sh);
        }
        R.digest(snapshot(s.g));
        R.distinct.insert(hh);
        if (sub < 15 && R.samples.size() < 4) R.sample("{\"class\": " + q(cls) + ", \"start_size\": " + std::to_string(n0) + ", \"history\": " + s.histJson() + "}");
    }

    // C16: forced insertions (one multiplicity per pair) followed by removeDuplicateEdges
    void runForced(uint64_t sub) {
        Rng r = caseRng(R.args.seed, hashStr(cls + "forced"), sub);
        unsigned n = 1 + r.u(5);
        Subject<G> s(n);
        R.describeCase = [&] { return "{\"class\": " + q(cls) + ", \"start_size\": " + std::to_string(n) + ", \"history\": " + s.histJson() + "}"; };
        std::map<Edge, unsigned> value;
        unsigned rounds = 1 + r.u(3);
        uint64_t hh = n;
        for (unsigned rd = 0; rd < rounds; ++rd) {
            unsigned ins = 1 + r.u(14);
            PairPicker pp;
            for (unsigned t = 0; t < ins; ++t) {
                Op op;
                op.kind = ADDM;
                op.force = true;
                Edge e = pp.pick(r, n, s.m.e, directed, -1);
                op.i = e.first; op.j = e.second;
                Edge key = s.m.key(op.i, op.j);
                if (!value.count(key)) value[key] = r.chance(1, 10) ? (r.chance(1, 2) ? 0xffffffffu : 1u << 31) : 1 + r.u(4);
                op.k = value[key];
                std::string err = s.apply(op);
                ++calls; ++callsByKind[ADDM];
                if (!err.empty()) { R.violation(cls + "/addMultiedge(force)/exception", err); return; }
                std::string e2 = checkAll(s);
                if (!e2.empty()) { R.violation(cls + "/addMultiedge(force)/" + observerOf(e2), "after " + op.str() + ": " + e2); return; }
                hh = mix64(hh, s.m.hash());
            }
            Op d; d.kind = DEDUP;
            std::string err = s.apply(d);
            ++calls; ++callsByKind[DEDUP];
            if (!err.empty()) { R.violation(cls + "/removeDuplicateEdges/exception", err); return; }
            std::string e2 = checkAll(s); // no duplicates now: structure, degrees, matrix
            if (e2.empty()) e2 = checkMult(s); // "total edge count [is that] of the deduplicated graph", multiplicity of every pair
            if (!e2.empty()) { R.violation(cls + "/removeDuplicateEdges/" + observerOf(e2), "after removeDuplicateEdges: " + e2 + "; model " + s.m.str()); return; }
            // equals the graph built by inserting each distinct pair once, unforced
            G u(n);
            for (auto &kv : s.m.e) u.addMultiedge(kv.first.first, kv.first.second, kv.second.mult);
            R.count("dedup_vs_unforced_replay_comparisons");
            if (!(s.g == u) || !(u == s.g) || (s.g != u)) {
                R.violation(cls + "/removeDuplicateEdges/operator==-vs-unforced-build", "graph after removeDuplicateEdges differs from the unforced build of " + s.m.str());
                return;
            }
        }
        R.digest(snapshot(s.g));
        R.distinct.insert(hh);
        if (sub < 4 && R.samples.size() < 6) R.sample("{\"class\": " + q(cls) + ", \"start_size\": " + std::to_string(n) + ", \"history\": " + s.histJson() + "}");
    }

    // ---- C06 -------------------------------------------------------------------
    void randomWalk(Rng &r, Subject<G> &s, unsigned len, unsigned style, unsigned maxN) {
        PairPicker pp;
        for (unsigned step = 0; step < len; ++step) {
            Op op = gen(r, s, pp, style, step, len, maxN);
            s.apply(op);
            ++calls; ++callsByKind[op.kind];
        }
    }
    // The verdict operator== must give is computed from what the two graphs OBSERVABLY are (vertices, hasEdge for every
    // pair, label / weight / multiplicity of every edge) - not from what their histories were meant to denote - so that a
    // defect in a mutator (another property's business) does not show up here as a wrong ==.
    static bool observablyEqual(const G &a, const G &b) {
        if (a.getSize() != b.getSize()) return false;
        size_t n = a.getSize();
        for (VertexIndex i = 0; i < n; ++i)
            for (VertexIndex j = 0; j < n; ++j) {
                bool ha = a.hasEdge(i, j);
                if (ha != b.hasEdge(i, j)) return false;
                if (ha && a.getEdgeMultiplicity(i, j) != b.getEdgeMultiplicity(i, j)) return false;
            }
        return true;
    }
    // neighbour lists and hasEdge tell the same story, each neighbour listed once (force is off in this mode)
    static bool selfConsistent(const G &g) {
        size_t n = g.getSize();
        size_t entries = 0, pairs = 0;
        for (VertexIndex i = 0; i < n; ++i) {
            std::set<VertexIndex> seen;
            for (auto j : g.getOutNeighbours(i)) {
                ++entries;
                if (j >= n || !seen.insert(j).second || !g.hasEdge(i, j)) return false;
                if (!directed && !g.hasEdge(j, i)) return false;
            }
            for (VertexIndex j = 0; j < n; ++j)
                if (g.hasEdge(i, j)) {
                    ++pairs;
                    if (!seen.count(j)) return false;
                }
        }
        if (entries != pairs) return false;
        size_t loops = 0;
        for (VertexIndex i = 0; i < n; ++i) loops += g.hasEdge(i, i);
        return g.getEdgeNumber() == (directed ? pairs : (pairs - loops) / 2 + loops);
    }
    // byConstruction: what the generator intended (equal routes / a perturbed copy); only used for the coverage counters
    bool eqAll(const G &a, const G &b, bool byConstruction, const char *what, const std::string &ctx) {
        if (!selfConsistent(a) || !selfConsistent(b)) {
            // lists, hasEdge and the edge count contradict each other: "the set of edges" is not well defined for this
            // object, which is C01/C02/C04's verdict; operator== is not judged on it
            R.count("pairs_skipped_graph_internally_inconsistent");
            return true;
        }
        bool want = observablyEqual(a, b);
        bool r1 = (a == b), r2 = (b == a), n1 = (a != b), n2 = (b != a);
        R.count(want ? "equality_checks_expected_equal" : "equality_checks_expected_unequal");
        if (want != byConstruction) R.count("pairs_whose_observable_relation_differs_from_the_intended_one");
        if (r1 != want || r2 != want || n1 == want || n2 == want) {
            std::ostringstream o;
            o << what << ": the two graphs are observably " << (want ? "equal" : "different") << " (size, hasEdge for every pair, value on every edge) but a==b:" << r1
              << " b==a:" << r2 << " a!=b:" << n1 << " b!=a:" << n2 << "; " << ctx;
            R.violation(cls + "/operator==/" + what, o.str());
            return false;
        }
        return true;
    }
    void runPair(uint64_t sub) {
        Rng r = caseRng(R.args.seed, hashStr(cls + "pair"), sub);
        static const unsigned startN[] = {0, 1, 2, 3, 5};
        unsigned n0 = startN[sub % 5];
        Subject<G> A(n0);
        unsigned lenA = 5 + r.u(50), styleA = r.u(3); // sequenced: argument evaluation order is unspecified
        randomWalk(r, A, lenA, styleA, cfg.maxN);
        const MModel &T = A.m;
        unsigned nb = r.u(T.n + 1);
        Subject<G> B(nb);
        unsigned lenB = r.u(45), styleB = r.u(3);
        randomWalk(r, B, lenB, styleB, T.n);
        while (B.m.n < T.n) {
            Op op; op.kind = RESIZE; op.k = 1 + r.u(T.n - B.m.n);
            B.apply(op);
        }
        std::vector<Op> repair;
        for (auto &kv : B.m.e)
            if (!T.e.count(kv.first)) {
                Op op; op.i = kv.first.first; op.j = kv.first.second;
                if (!directed && r.chance(1, 2)) std::swap(op.i, op.j);
                if (r.chance(1, 2)) { op.kind = SETM0; op.k = 0; }
                else { op.kind = REMOVEM; op.k = kv.second.mult > 0xfffffff0u ? kv.second.mult : kv.second.mult + r.u(3); }
                repair.push_back(op);
            }
        for (auto &kv : T.e) {
            auto it = B.m.e.find(kv.first);
            Op op; op.i = kv.first.first; op.j = kv.first.second;
            if (!directed && r.chance(1, 2)) std::swap(op.i, op.j);
            if (it == B.m.e.end()) {
                op.kind = r.chance(1, 2) ? ADDM : SETM; op.k = kv.second.mult;
                repair.push_back(op);
            } else if (it->second.mult != kv.second.mult) {
                unsigned cur = it->second.mult, want = kv.second.mult;
                unsigned c = r.u(3);
                if (c == 0) { op.kind = SETM; op.k = want; }
                else if (cur < want) { op.kind = ADDM; op.k = want - cur; }
                else { op.kind = REMOVEM; op.k = cur - want; }
                repair.push_back(op);
            }
        }
        for (size_t i = repair.size(); i > 1; --i) std::swap(repair[i - 1], repair[r.u((unsigned)i)]);
        for (auto &op : repair) B.apply(op);
        Subject<G> C(T.n);
        {
            std::vector<Op> ops;
            for (auto &kv : T.e) {
                Op op; op.i = kv.first.first; op.j = kv.first.second;
                if (!directed && r.chance(1, 2)) std::swap(op.i, op.j);
                op.kind = ADDM; op.k = kv.second.mult;
                ops.push_back(op);
            }
            for (size_t i = ops.size(); i > 1; --i) std::swap(ops[i - 1], ops[r.u((unsigned)i)]);
            for (auto &op : ops) C.apply(op);
        }
        R.describeCase = [&] {
            return "{\"class\": " + q(cls) + ", \"history_A\": " + A.histJson() + ", \"start_A\": " + std::to_string(n0) + ", \"history_B\": " + B.histJson() +
                   ", \"start_B\": " + std::to_string(nb) + ", \"history_C\": " + C.histJson() + ", \"denoted\": " + q(T.str()) + "}";
        };
        if (!(B.m.hash() == T.hash() && C.m.hash() == T.hash())) {
            fprintf(stderr, "harness error: repair did not reach target (multi)\n");
            exit(2);
        }
        std::string ctx = "both histories denote " + T.str();
        if (A.removals + B.removals > 0) R.count("pairs_where_a_history_removed_edges");
        R.distinct.insert(mix64(T.hash(), mix64(hashStr(B.histJson()), hashStr(A.histJson()))));
        if (!eqAll(A.g, A.g, true, "reflexive", ctx)) return;
        if (!eqAll(A.g, B.g, true, "two-histories-same-graph", ctx)) return;
        if (!eqAll(A.g, C.g, true, "history-vs-fresh-build", ctx)) return;
        if (!eqAll(B.g, C.g, true, "history-vs-fresh-build", ctx)) return;
        std::string snapB = snapshot(B.g);
        G D(B.g);
        G E(0);
        E = A.g;
        if (!eqAll(D, B.g, true, "copy-constructed", ctx)) return;
        if (!eqAll(E, A.g, true, "copy-assigned", ctx)) return;
        unsigned n = T.n;
        std::vector<int> feasible;
        if (n > 0 && T.e.size() < (directed ? (size_t)n * n : (size_t)n * (n + 1) / 2)) feasible.push_back(0);
        if (!T.e.empty()) { feasible.push_back(1); feasible.push_back(2); }
        feasible.push_back(3);
        if (feasible.size() >= 4 && feasible[0] == 0) { feasible.push_back(4); feasible.push_back(4); } // move one edge (same count and value)
        int pk = feasible[r.u((unsigned)feasible.size())];
        std::string pdesc;
        if (pk == 0) {
            VertexIndex i, j;
            do { i = r.u(n); j = r.u(n); } while (T.has(i, j));
            D.addEdge(i, j);
            pdesc = "one-extra-edge";
        } else if (pk == 1) {
            auto it = T.e.begin();
            std::advance(it, r.u((unsigned)T.e.size()));
            D.setEdgeMultiplicity(it->first.first, it->first.second, 0);
            pdesc = "one-edge-fewer";
        } else if (pk == 2) {
            auto it = T.e.begin();
            std::advance(it, r.u((unsigned)T.e.size()));
            D.addMultiedge(it->first.first, it->first.second, 1);
            pdesc = "one-multiplicity-differs";
        } else if (pk == 4) {
            auto it = T.e.begin();
            std::advance(it, r.u((unsigned)T.e.size()));
            VertexIndex i, j;
            do { i = r.u(n); j = r.chance(1, 3) ? i : r.u(n); } while (T.has(i, j));
            D.setEdgeMultiplicity(it->first.first, it->first.second, 0);
            D.addMultiedge(i, j, it->second.mult);
            pdesc = "one-edge-moved";
        } else {
            D.resize(n + 1);
            pdesc = "one-extra-vertex";
        }
        R.count("perturbation_" + pdesc);
        if (!eqAll(D, A.g, false, pdesc.c_str(), ctx)) return;
        if (!eqAll(D, B.g, false, "mutated-copy-vs-source", ctx)) return;
        if (!eqAll(B.g, A.g, true, "source-after-copy-mutated", ctx)) return;
        if (snapshot(B.g) != snapB) {
            R.violation(cls + "/copy/source-changed-after-mutating-copy", "the source graph's observable state changed when its copy was mutated; before: " + snapB + " after: " + snapshot(B.g));
            return;
        }
        if (sub < 6 && R.samples.size() < 6)
            R.sample("{\"class\": " + q(cls) + ", \"history_A\": " + A.histJson() + ", \"history_B\": " + B.histJson() + ", \"perturbation\": " + q(pdesc) + "}");
    }
};

template <class G> void registerOne(const char *cls, bool directed) {
    Runner rn;
    rn.family = "multi";
    rn.cls = cls;
    rn.label = "multiplicity";
    rn.directed = directed;
    std::string c = cls;
    rn.run = [c](Reporter &R, const HistConfig &cfg, uint64_t sub) {
        static std::map<std::string, Monitor<G> *> mons;
        auto &mp = mons[c + cfg.prop];
        if (!mp) mp = new Monitor<G>(R, cfg, c);
        if (sub == (uint64_t)-1) { mp->flush(); return; }
        if (cfg.pairMode) mp->runPair(sub);
        else mp->runHistory(sub);
    };
    static RegisterRunner reg(rn);
}
struct Init {
    Init() {
        registerOne<BaseGraph::DirectedMultigraph>("DirectedMultigraph", true);
        registerOne<BaseGraph::UndirectedMultigraph>("UndirectedMultigraph", false);
    }
} init;

} // namespace
} // namespace vf
