#!/bin/bash
# Confirm a seeded change (tests still pass, demo fails with it and passes without) and run checks against it.
#   tools/eval_seed.sh <dir with patch.diff demo.cpp> <name> "<demo compile flags>" [prop ...]
set -u
dir=$(readlink -f "$1"); name=$2; dflags=$3; shift 3
wt=/tmp/wt_eval_$name
git -C /repo worktree remove --force $wt >/dev/null 2>&1
git -C /repo worktree add -f $wt HEAD -q || exit 2
res="seed=$name"
if (cd $wt && git apply "$dir/patch.diff"); then
  (cd $wt && cmake -G Ninja -B _build -DBUILD_TESTS=ON >/dev/null 2>&1 && cmake --build _build >/tmp/eval_$name.build 2>&1) && compiled=yes || compiled=no
  if [ $compiled = yes ]; then
    t=$(cd $wt && ctest --test-dir _build -j8 2>&1 | grep -E "tests passed|tests failed" | head -1)
    res="$res | suite: $t"
    g++ -std=c++17 $dflags -I $wt/include "$dir/demo.cpp" -o /tmp/demo_$name.with 2>/tmp/eval_$name.demo && { timeout 120 /tmp/demo_$name.with >/dev/null 2>&1; res="$res | demo with patch: exit $?"; } || res="$res | demo with patch: DOES NOT COMPILE"
    g++ -std=c++17 $dflags -I /repo/include "$dir/demo.cpp" -o /tmp/demo_$name.without 2>>/tmp/eval_$name.demo && { timeout 120 /tmp/demo_$name.without >/dev/null 2>&1; res="$res | demo without: exit $?"; }
  else
    res="$res | DOES NOT COMPILE WITH TESTS"
  fi
else
  res="$res | PATCH DOES NOT APPLY"
fi
echo "$res"
git -C /repo worktree remove --force $wt >/dev/null 2>&1
rm -f /tmp/demo_$name.with /tmp/demo_$name.without
[ $# -gt 0 ] && /verif/tools/try_seed.sh "$dir/patch.diff" $name "$@"
