#!/usr/bin/env python3
"""Writes /verif/MANIFEST.json from the tables below (kept next to lib/props.py so
that the two cannot drift apart silently: every property in props.PROPS must be
listed here and vice versa)."""
import json
import os
import sys

VERIF = os.path.dirname(os.path.dirname(os.path.abspath(__file__)))
sys.path.insert(0, os.path.join(VERIF, "lib"))
import props  # noqa: E402

HOOK_COMMITS = []

CHECKS = {
    "C01": ("hist", "exploration", "2.C01",
            "reference-model monitor over random call histories under ASan+UBSan",
            "Runs the real LabeledDirectedGraph<L> (8 label kinds, an empty tag struct among them) through tens of thousands of seeded call histories that compose all the mutators, and after EVERY call "
            "compares every structural observer (hasEdge for all pairs, getEdgeNumber, neighbour lists, degrees, adjacency matrix, edges(), vertex iteration) with a "
            "set-of-pairs model; re-adding an existing edge / removing an absent one must not even reorder a list. Every 50th history is a 'scale' history (12-70 vertices, a hub "
            "collecting 50+ neighbours, hundreds of calls, observed every 8th call) and every 200th a life of 2000-4500 calls on one small object. Every third history contains calls the library must reject (out-of-range "
            "index, shrinking resize), usually followed by the resize that makes the rejected index a vertex - the moment anything such a call left behind becomes observable. Exploration is the right level: the property quantifies over unbounded histories, which can only be sampled; "
            "held means 'held on the histories counted in the evidence'.",
            "Trusted: the 60-line std::map model in harness/hist_simple.cpp, the compiler sanitizers. Histories are <= 80 calls on <= 7 vertices."),
    "C02": ("hist", "exploration", "2.C02",
            "reference-model monitor over random call histories (unordered-pair model) under ASan+UBSan",
            "As C01 on LabeledUndirectedGraph<L>: pairs named in random orientation, removals preferably in the orientation opposite to the insertion; symmetry of hasEdge / "
            "neighbour lists / adjacency matrix, both self-loop conventions of getDegree(s) and the matrix, edges() once per pair with first<=second, checked after every call.",
            "Trusted: the unordered-pair model, the sanitizers. Bounded histories and sizes."),
    "C03": ("hist", "exploration", "2.C03",
            "reference-model monitor with unique labels; reads of every pair after every call",
            "Every call carries a label value unique to that call, so a stale label is never mistaken for the right one. After every call getEdgeLabel (throwing and "
            "non-throwing) and hasEdge(i,j,label) are compared for every ordered pair, present or absent; counters show how many absent-pair reads followed each of the five "
            "ways an edge can disappear and how many followed a re-creation.",
            "Trusted: map model, sanitizers. char labels have only 255 values, so uniqueness is approximate there."),
    "C04": ("hist", "exploration", "2.C04",
            "reference-model monitor (pair -> multiplicity) over random call histories",
            "Both multigraph classes under histories mixing add/remove of single and multiple edges, setEdgeMultiplicity incl. 0 on edges of multiplicity 1, 2 and more, bulk "
            "removals and resize; getEdgeMultiplicity for every ordered pair, ==0 iff !hasEdge, getEdgeNumber, getTotalEdgeNumber, degrees and matrix after every call.",
            "Trusted: map model, sanitizers."),
    "C05": ("hist", "exploration", "2.C05",
            "reference-model monitor with an exact (dyadic) and a rounding weight alphabet",
            "Both weighted classes; with dyadic weights k/8 every partial sum is exact so getTotalWeight must equal the model sum exactly (half of these histories scaled as a whole by 2^-67 .. 2^900, still exact); with random doubles a relative "
            "tolerance applies. getEdgeWeight (both modes, both orientations), getWeightMatrix and the structural observers after every call; setEdgeWeight on present and absent "
            "edges and in descending orientation is counted. One rounding-mode history in seven uses weights above DBL_MAX/2 (the model sum stays a finite double): an "
            "intermediate value narrower than the long double total shows as inf/NaN. Rejected calls inside histories as in C01.",
            "Trusted: map model, long double arithmetic of the host, sanitizers."),
    "C06": ("hist", "exploration", "2.C06",
            "pairs of histories denoting the same graph; operator== oracle with one-element perturbations",
            "Builds the same denoted graph by two different random histories (the second repaired to the target by a shuffled sequence of removals/additions/relabelings) and a "
            "straight build; for every pair (also copies, and copies perturbed by exactly one extra / missing / moved edge, label or vertex) the verdict is computed from the two graphs' observable "
            "state and compared with ==, != in both operand orders; the source of a mutated copy keeps its exact observable state. All eight classes.",
            "Trusted: model used to compute the repair, sanitizers."),
    "C07": ("reject", "fault_enumeration", "2.C07",
            "exhaustive rejected-call matrix with exception-type ladder and before/after snapshots, under ASan+UBSan+_GLIBCXX_ASSERTIONS",
            "Enumerates completely {12 class instantiations} x {every public entry point taking a vertex index, incl. subgraph extraction and path searches} x {argument position} x "
            "{size, size+1, UINT_MAX} x {flag combinations incl. force=true} in 8 kinds of graph state with valid calls interleaved; oracle: std::out_of_range exactly, full state "
            "snapshot identical, graph == copy. libstdc++ assertions make any vector::operator[] past the end abort, so an unchecked index is observable even when the wild address "
            "is mapped; a cell that kills the process is re-run in a forked child and reported with its tuple. Fault enumeration is the right level: the fault space (bad index x "
            "position x entry) is finite and is covered completely; graph states are sampled.",
            "Trusted: the hand-written cell list (new entry points must be added), sanitizers, libstdc++ assertions."),
    "C08": ("shape", "exploration", "2.C08",
            "exhaustive enumeration of small graphs x insertion orders with iteration oracles",
            "Every directed graph on <=3 (thorough 4) and undirected graph on <=4 (5) vertices with loops, each in 5 insertion orders, plus random larger graphs, for all eight classes: "
            "vertex range-for, edges() by pre-/post-increment and range-for (same sequence, twice), begin()==end() iff no edge, multiset equal to the model, and every "
            "edge-enumerating operation (in-degrees, matrix, reversal, conversions, writers, operator<<) defined (returns normally) on every shape, also after the graph is mutated "
            "between two traversals. Zero-vertex and edgeless graphs are counted in the evidence.",
            "Trusted: enumeration code, model, sanitizers. Exhaustive only up to the stated sizes."),
    "C09": ("shape", "exploration", "2.C09",
            "independently built expectations for reversal / conversions / constructors / copies on enumerated graphs",
            "On the C08 graph space with a unique label per edge: getReversedGraph, getDirectedGraph, undirected-from-directed and u->d->u are compared with independently built "
            "graphs (structure, labels, ==); each class is constructed from vector/list/deque/forward_list/set/multiset of edges incl. a repeated entry and compared with adding "
            "one at a time (also (i,j,NoLabel) containers with a repeated pair, multiplicities of 2^31..UINT_MAX); copies are mutated to show independence; assignment over "
            "non-empty graphs from lvalues and temporaries and construction from a temporary; a fifth of the source graphs have a past (removed foreign edges, rejected calls, "
            "removeVertexFromEdgeList, clearEdges + rebuild). The weighted edge-list constructors are separate compilation units so that failing to instantiate is a verdict.",
            "Trusted: model, sanitizers; the 'uninstantiable' verdict rests on the compiler's diagnostics."),
    "C10": ("shape", "exploration", "2.C10",
            "all 2^n vertex subsets of enumerated graphs against the induced-subgraph model",
            "For every enumerated graph (and random ones up to 6-7 vertices) all 2^n subsets S: getSubgraph has size n and exactly the induced edges with labels; "
            "getSubgraphWithRemap has |S| vertices, its map is a bijection S -> 0..|S|-1 and the pulled-back graph equals the induced subgraph, labels included. Sources "
            "freshly built, with a past, or carrying forced duplicates (then the set of connected pairs and the labels are held); a double label kind with NaN labels; "
            "subgraph of a subgraph; rejected calls between the valid ones.",
            "Trusted: model, sanitizers."),
    "C11": ("paths", "exploration", "2.C11",
            "reference BFS and brute-force shortest-path sets on enumerated and tie-rich graphs",
            "Every source (and destination) of every enumerated small graph, random graphs up to 14 vertices and tie-rich families: distances, single predecessor, all-predecessor "
            "sets, returned paths walked edge by edge, and the SET of all shortest paths compared with a brute-force enumeration (no duplicate, none missing). Searches run on a "
            "scan-counting wrapper type so non-termination is a verdict, not a hang. A fifth of the graphs carry forced duplicate edges; some have rejected calls in their "
            "past; ten (thorough forty) shallow random graphs of 65535..100003 vertices are searched from three sources (32-bit index arithmetic past 2^16 vertices).",
            "Trusted: 20-line reference BFS and path enumerator in harness/paths.cpp, sanitizers."),
    "C12": ("paths", "exploration", "2.C12",
            "Bellman-Ford reference over exact and rounding weight alphabets",
            "Dijkstra on both weighted classes over the C11 graph space with weights {0,1,2,3}, dyadic, all-zero (exact comparison) and random doubles (1e-9 relative): distances "
            "vs Bellman-Ford, source conventions, unreachable conventions, and a consistent predecessor tree (edge exists, dist[v]=dist[p]+w). Ten (thorough forty) graphs of "
            "65535..131072 vertices with 300 non-isolated vertices spread over the index range (reference: textbook Dijkstra).",
            "Trusted: reference Bellman-Ford, sanitizers."),
    "C13": ("io", "exploration", "2.C13",
            "round trip with independent parse of the written file; grammar-generated well-formed files; name-table oracle",
            "Text writer/loader over random graphs and five label kinds (independent parse of the file, size rule, observer-by-observer and == after resize); files generated from "
            "the documented grammar (comments anywhere, runs of blanks/tabs, optional final newline, one file in five with zero-padded decimal indices); a loaded graph is written "
            "and loaded again; vertex-name loader checked for first-appearance numbering and names[index(x)]==x.",
            "Trusted: the monitor's own tokenizer/grammar reading of the documented format, sanitizers."),
    "C14": ("io", "exploration", "2.C14",
            "byte-for-byte comparison with an independent little-endian encoder; hand-made files; open-failure enumeration",
            "Binary writer output compared byte for byte with the monitor's own encoding for 11 label kinds, length = edges x record size, deterministic reload, == after resize; "
            "hand-made files with shuffled records; written graphs that carry forced duplicates (one record per copy, copies back after loading); graphs over byte-pattern-rich vertex indices (35, 255, 256, 65535, 65536...) and files of 255..8193 edges; every writer and "
            "loader on unopenable paths - and with openat failures (EACCES, EMFILE, ...) injected by strace on a perfectly openable file - must throw std::runtime_error.",
            "Trusted: independent encoder; the host is little-endian, so the byte-swap branch is not executed (stated in the evidence)."),
    "C15": ("io", "fault_enumeration", "2.C15",
            "every truncation offset of valid files; malformed-text grammar fuzz; ASan+UBSan in-process, fork isolation, memcheck in the thorough tier",
            "Crash points are enumerated completely per file: every cut offset 0..length of valid binary files with label sizes 0,1,2,4,8 - also written and read through user codecs of 2 and 8 bytes per int label - must throw or return exactly the complete "
            "records before the cut. Malformed text from a mutation grammar must return a readable graph or throw a std::exception. Inputs that kill the process are re-run in a "
            "forked child; the truncation cases run a second time under valgrind memcheck (uninitialised reads); an AddressSanitizer allocation-limit abort is re-examined with the "
            "uninstrumented build under an address-space limit, because the property allows std::bad_alloc. Fault enumeration fits: the crash points of a given file are finite and all are tried; files and malformed texts are sampled.",
            "Trusted: sanitizers / valgrind; vertex numbers in fuzzed text are kept allocatable as the property allows."),
    "C16": ("hist", "exploration", "2.C16",
            "multiset reference model over histories with forced duplicates; == against an unforced replay",
            "Simple/labelled classes: histories of forced and unforced insertions (same label per pair), removeEdge, removeDuplicateEdges; neighbour multisets, edges(), "
            "getEdgeNumber, adjacency matrix and hasEdge after every call, and after every removeDuplicateEdges == against the same calls replayed without force. Weighted and "
            "multigraph classes: forced insertions with one value per pair, then removeDuplicateEdges, totals of the deduplicated graph, == the unforced build.",
            "Trusted: multiset model. For multigraphs the 'unforced build' inserts each distinct pair once (documentation: duplicates are not multiedges)."),
    "C17": ("omni", "exploration", "2.C17",
            "sanitizer / debug-mode / memcheck matrix over the valid workloads with cross-configuration result digests",
            "The valid workloads of C01-C06, C08-C14, C16, C19 run with one seed under g++ ASan+UBSan+assertions, g++ -O0 _GLIBCXX_DEBUG+PEDANTIC, g++ -O2, clang++ ASan+UBSan "
            "(thorough: + g++ -O0, clang++ -O2, valgrind memcheck); no report or crash anywhere, identical order-independent digest of every result in all configurations, and "
            "identical model disagreements everywhere.",
            "Trusted: the sanitizers, libstdc++ debug mode, valgrind; only executed paths are judged."),
    "C18": ("race", "exploration", "2.C18",
            "ThreadSanitizer (gcc and clang) over concurrent const readers with relaxed-only harness synchronisation; per-thread results vs single-threaded baseline",
            "2-16 threads run random sequences over all const entry points of a shared graph of each of the eight classes; zero TSan reports and every result equal to the "
            "single-threaded baseline. Because the harness adds no happens-before edges between readers, TSan flags a write in a const member against any other thread's access, "
            "overlapping or not.",
            "Trusted: ThreadSanitizer runtimes of gcc 12 / clang 14; libstdc++ is uninstrumented."),
    "C19": ("paths", "exploration", "2.C19",
            "work counters on wrapper graph types (logical steps, never wall-clock) over families with exponentially many shortest paths",
            "Wrapper types derive from the real classes and shadow getOutNeighbours with a counter that throws at bound+1; the stated bounds V, V+E, V+E+1 are enforced exactly on "
            "layered graphs (up to 4^40 shortest paths), grids, DAGs, cliques, shortcut-triangle chains, zero-weight cycles, graphs with forced duplicate edges and random graphs. "
            "Only the scan count is judged (wrong answers are C11/C12's verdict). "
            "A search-and-amplify pass replays the tentative distances along the recorded scan order of small dense graphs; if a vertex is ever expanded before its distance is "
            "final, that base graph is chained six times with shared sinks so that the wasted work exceeds the slack of the bound, and the bound is enforced there.",
            "Trusted: the wrapper sees every neighbourhood scan because the searches are templates over the graph type and call getOutNeighbours on it."),
}

NOT_APPLICABLE = [
    {"property_id": "C20",
     "reason": "C20 is decided by the compiler and linker accepting a matrix of client programs; nothing executes, so there is no execution for a runtime monitor or sanitizer "
               "to observe. (The only compile-time verdict kept is C09's 'weighted edge-list constructor cannot be instantiated', because that monitor cannot run without it.)"},
]


def main():
    missing = set(props.PROPS) ^ set(CHECKS)
    if missing:
        print("props.PROPS and CHECKS disagree on", sorted(missing), file=sys.stderr)
        return 1
    checks = []
    for pid in sorted(CHECKS):
        eng, cat, ref, technique, text, note = CHECKS[pid]
        checks.append({
            "property_id": pid,
            "quick_cmd": "./check %s --tier quick" % pid,
            "thorough_cmd": "./check %s --tier thorough" % pid,
            "evidence_file": "/verif/evidence/%s.json" % pid,
            "replay_cmd_template": "./check %s --replay {path}" % pid,
            "engine": eng,
            "level_claimed": {"category": cat, "text": text, "design_ref": "DESIGN.md section " + ref},
            "level_note": note,
            "technique": technique,
        })
    engines = [
        {"name": "hist", "path": "harness/hist_*.cpp", "serves_properties": ["C01", "C02", "C03", "C04", "C05", "C06", "C16"], "kind_free_text": "history monitor: real object vs executable model after every call"},
        {"name": "reject", "path": "harness/reject_*.cpp", "serves_properties": ["C07"], "kind_free_text": "rejected-call matrix with fork isolation"},
        {"name": "shape", "path": "harness/shape_*.cpp", "serves_properties": ["C08", "C09", "C10"], "kind_free_text": "enumeration of small graphs, conversions, constructors, subgraphs"},
        {"name": "paths", "path": "harness/paths.cpp", "serves_properties": ["C11", "C12", "C19"], "kind_free_text": "search oracles and scan counters on wrapper graph types"},
        {"name": "io", "path": "harness/io_*.cpp", "serves_properties": ["C13", "C14", "C15"], "kind_free_text": "file round trips, byte layout, truncation and malformed input"},
        {"name": "omni", "path": "lib/props.py:run_c17", "serves_properties": ["C17"], "kind_free_text": "the valid workloads above in a matrix of build configurations"},
        {"name": "race", "path": "harness/race.cpp", "serves_properties": ["C18"], "kind_free_text": "concurrent const readers under ThreadSanitizer"},
    ]
    manifest = {
        "version": 1,
        "setup_cmd": "./check --build-all",
        "hooks": {
            "guard": "BASEGRAPH_VERIF",
            "enable": "no hook was needed: BaseGraph is header-only and every monitor observes through the public API (harness compiled with -I/repo/include; the scan counter is a "
                      "wrapper type deriving from the real classes). The guard name is reserved; no guarded code exists in /repo.",
            "baseline_off_cmd": "cmake --build /repo/_build && ctest --test-dir /repo/_build -j8 --timeout 900",
            "source_commits": HOOK_COMMITS,
            "add_only": True,
        },
        "engines": engines,
        "checks": checks,
        "not_applicable": NOT_APPLICABLE,
        "notes": "Driver: ./check <ID> [--tier quick|thorough] [--replay PATH]; VERIF_SEED selects the PRNG stream; exit 0 held / 1 violation / 2 inconclusive. "
                 "Every check recompiles its harness against /repo/include when any header changed (content-hashed build cache in /verif/.build). "
                 "Genuine defects found and repaired are listed in KNOWN_FINDINGS.txt (fixed: lines suppress nothing).",
    }
    with open(os.path.join(VERIF, "MANIFEST.json"), "w") as fh:
        json.dump(manifest, fh, indent=1)
    print("wrote MANIFEST.json with", len(checks), "checks")
    return 0


if __name__ == "__main__":
    sys.exit(main())
