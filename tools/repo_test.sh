#!/bin/sh
# Rebuild the repository's own test suite (guard off - there is no guarded code) and run it.
set -e
R=${1:-/repo}
cmake --build $R/_build >/tmp/repo_build.log 2>&1 || { tail -30 /tmp/repo_build.log; exit 1; }
ctest --test-dir $R/_build -j8 --timeout 900 2>&1 | tail -4
n=0
for t in $R/_build/tests/test_*; do
  [ -x "$t" ] || continue
  c=$($t 2>&1 | grep -E '^\[  PASSED  \]' | grep -oE '[0-9]+' | head -1)
  f=$($t 2>&1 | grep -cE '^\[  FAILED  \]' || true)
  n=$((n + c))
  [ "$f" = "0" ] || { echo "FAILED tests in $t"; exit 1; }
done
echo "gtest cases passed: $n"
