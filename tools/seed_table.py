#!/usr/bin/env python3
"""Prints the markdown table of DESIGN.md section 7 from seeded/*/meta.json and, with --write, replaces the table in
DESIGN.md (the lines starting with '| seed |' up to the last line starting with '| C')."""
import glob
import json
import os
import re
import sys

V = os.path.dirname(os.path.dirname(os.path.abspath(__file__)))


def rows():
    out = []
    for f in sorted(glob.glob(os.path.join(V, "seeded", "C*", "meta.json"))):
        m = json.load(open(f))
        what = re.sub(r"\s+", " ", m.get("needs_to_manifest", "")).lstrip("# ").replace("|", "/")[:230]
        caught = ", ".join(m["caught_by"]) or "-"
        silent = ", ".join(m["silent"]) or "-"
        if m.get("inconclusive"):
            caught += " (inconclusive: %s)" % ", ".join(m["inconclusive"])
        if "outside_every_statement" in m:
            caught += " - outside every statement, see meta.json"
        if "stated_by" in m:
            caught += " (stated by %s)" % m["stated_by"]["property"]
        out.append("| %s | %s | %s | %s |" % (m["id"], what, caught, silent))
    return out


def main():
    table = ["| seed | what it does / what it needs (from the author's notes) | caught by | also run, silent |", "|---|---|---|---|"] + rows()
    if "--write" not in sys.argv:
        print("\n".join(table))
        return
    p = os.path.join(V, "DESIGN.md")
    lines = open(p).read().split("\n")
    start = next(i for i, l in enumerate(lines) if l.startswith("| seed |"))
    end = start
    while end < len(lines) and lines[end].startswith("|"):
        end += 1
    lines[start:end] = table
    open(p, "w").write("\n".join(lines))
    print("wrote %d rows" % (len(table) - 2))


if __name__ == "__main__":
    main()
