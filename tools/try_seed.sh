#!/bin/bash
# Calibration: run checks against a scratch copy of /repo with a seeded change applied.
#   tools/try_seed.sh <patch.diff> <scratch-name> [prop ...]     (default: all properties)
# Nothing is written under /repo or /verif/evidence; the scratch copy and its build output are removed afterwards.
set -u
patch=$(readlink -f "$1"); name=$2; shift 2
props=${*:-C01 C02 C03 C04 C05 C06 C07 C08 C09 C10 C11 C12 C13 C14 C15 C16 C17 C18 C19}
d=/tmp/mut_$name
rm -rf $d; mkdir -p $d
cp -r /repo/include $d/include
(cd $d && patch -s -p1 < "$patch") || { echo "patch does not apply"; exit 2; }
export VERIF_REPO=$d VERIF_BUILD_DIR=$d/.build VERIF_EVIDENCE_DIR=$d/evidence
cd /verif
for p in $props; do
  out=$(./check $p --tier ${TIER:-quick} 2>&1); rc=$?
  nv=$(echo "$out" | grep -c '^VIOLATION')
  first=$(echo "$out" | grep -m1 'key=' | cut -c1-260)
  echo "$name $p rc=$rc violations=$nv $first"
done
rm -rf $d
