#!/bin/bash
# A behaviour-preserving change must leave every check silent.
#   tools/eval_refactor.sh <dir with patch.diff> <name> prop...
set -u
dir=$(readlink -f "$1"); name=$2; shift 2
wt=/tmp/wt_eval_$name
git -C /repo worktree remove --force $wt >/dev/null 2>&1
git -C /repo worktree add -f $wt HEAD -q || exit 2
res="refactor=$name"
if (cd $wt && git apply "$dir/patch.diff"); then
  (cd $wt && cmake -G Ninja -B _build -DBUILD_TESTS=ON >/dev/null 2>&1 && cmake --build _build >/dev/null 2>&1) && t=$(cd $wt && ctest --test-dir _build -j8 2>&1 | grep -E "tests passed|tests failed" | head -1) || t="DOES NOT BUILD"
  res="$res | suite: $t"
else
  res="$res | PATCH DOES NOT APPLY"
fi
echo "$res"
git -C /repo worktree remove --force $wt >/dev/null 2>&1
/verif/tools/try_seed.sh "$dir/patch.diff" $name "$@"
