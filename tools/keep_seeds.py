#!/usr/bin/env python3
"""Copies confirmed seeded changes from /tmp/seed_out into /verif/seeded/<id>/ and
writes meta.json from the evaluation logs (/tmp/evalres/*.log produced by
tools/eval_seed.sh). Usage: tools/keep_seeds.py"""
import glob
import json
import os
import re
import shutil

SRC = "/tmp/seed_out"
DST = "/verif/seeded"
# a change written against one property's text that only touches what another property states
STATED_BY = {"C04_F": ("C09", "changes only the UndirectedMultigraph edge-list constructor: C04 quantifies over sequences of the listed mutators on a constructed "
                              "graph, 'equal to adding those edges one at a time' is C09's clause"),
             "C02_E": ("C09", "changes only the undirected-from-directed converting constructor; C02 quantifies over sequences of mutating calls on an undirected graph, "
                              "'an undirected graph constructed from a directed one connects exactly the pairs joined in either direction' is C09's clause"),
             "C02_F": ("C09", "changes only move assignment; 'copy construction and assignment produce independent equal graphs' is C09's clause (C02's histories are member "
                              "calls on one object)"),
             "C06_F": ("C07", "makes a rejected addEdge(valid, out-of-range, force=true) leave a half-edge: 'after any rejected call the graph is observably identical' is "
                              "C07's clause. The object is then internally inconsistent (a neighbour >= getSize()), and the C06 monitor by its own rule does not judge "
                              "operator== on such objects (that is C01/C02/C07's verdict); C16, whose histories contain rejected forced insertions, reports it as well")}


# a change whose demonstration shows behaviour that no property's statement rules out
OUTSIDE_STATEMENT = {"C15_H": "the default index parser of loadTextEdgeList reads with stoul and casts to 32 bits, so the token 4294967296 becomes vertex 0 instead of "
                              "being rejected. C15's statement for text is 'either returns a graph or throws an exception derived from std::exception' and never reads "
                              "out of bounds or crashes; which graph is returned for an overflowing token is not stated ('never an edge pieced together' is the binary "
                              "clause), and C13 speaks of well-formed files only. The demonstration therefore shows a change of unspecified behaviour and no check may "
                              "report it. What the change also does - the token 2147483648, part of the malformed alphabet, now asks for 2^31+1 vertices - makes the "
                              "sanitizer shards die in the allocator; each such death is re-qualified against the uninstrumented build (std::bad_alloc, allowed), the "
                              "shards are abandoned after four of them and the run ends below its coverage floors: INCONCLUSIVE, exit 2, no VIOLATION line."}


def confirmed(conf):
    return bool("0 tests failed" in conf and re.search(r"demo with patch: exit (?!0\b)", conf) and "demo without: exit 0" in conf)


def parse_logs():
    res = {}
    for f in sorted(glob.glob("/tmp/evalres/round1/*.log")) + sorted(glob.glob("/tmp/evalres/round2/*.log")) + sorted(glob.glob("/tmp/evalres/*.log")):
        for line in open(f, errors="replace"):
            m = re.match(r"seed=(\S+) \| (.*)$", line.strip())
            if m:
                d = res.setdefault(m.group(1), {"checks": {}})
                # a later run of the demonstration without the sanitizer flags its author asked for does not un-confirm a change
                if not (confirmed(d.get("confirm", "")) and not confirmed(m.group(2))):
                    d["confirm"] = m.group(2)
                continue
            m = re.match(r"(\S+) (C\d+) rc=(\d+) violations=(\d+)\s*(.*)$", line.strip())
            if m:
                d = res.setdefault(m.group(1), {"checks": {}})
                # later runs (after a check was strengthened) override earlier ones
                prev = d["checks"].get(m.group(2), {}).get("earlier_runs", [])
                if m.group(2) in d["checks"]:
                    prev = prev + [{"log": d["checks"][m.group(2)]["log"], "exit": d["checks"][m.group(2)]["exit"]}]
                d["checks"][m.group(2)] = {"exit": int(m.group(3)), "violation_lines": int(m.group(4)), "first_witness": m.group(5)[:300],
                                           "log": os.path.basename(f), "earlier_runs": prev}
    return res


def main():
    logs = parse_logs()
    kept = []
    for name, d in sorted(logs.items()):
        m = re.match(r"(C\d+)_([A-H])$", name)
        if not m:
            continue
        prop, var = m.groups()
        src = os.path.join(SRC, prop, var)
        conf = d.get("confirm", "")
        if not confirmed(conf):
            print("NOT CONFIRMED", name, conf)
            continue
        dst = os.path.join(DST, "%s-%s" % (prop, var))
        os.makedirs(dst, exist_ok=True)
        for f in ("patch.diff", "demo.cpp", "notes.md"):
            if os.path.exists(os.path.join(src, f)):
                shutil.copy(os.path.join(src, f), os.path.join(dst, f))
        notes = open(os.path.join(src, "notes.md"), errors="replace").read() if os.path.exists(os.path.join(src, "notes.md")) else ""
        caught = sorted(p for p, c in d["checks"].items() if c["exit"] == 1)
        missed = sorted(p for p, c in d["checks"].items() if c["exit"] == 0)
        meta = {
            "id": "%s-%s" % (prop, var),
            "breaks_property": prop,
            "written_by": "independent sub-agent given only the property text and a scratch worktree of /repo (nothing from /verif)",
            "needs_to_manifest": notes[:1800],
            "confirmed_by_me": {"how": "tools/eval_seed.sh: git apply on a fresh worktree of /repo, cmake+ninja build of the repository's tests, ctest; demo compiled against "
                                       "the patched and the unpatched headers", "result": conf},
            "checks_run_against_it": d["checks"],
            "caught_by": caught,
            "silent": missed,
            "designated_check_catches_it": STATED_BY.get(name, (prop,))[0] in caught,
        }
        meta["inconclusive"] = sorted(p for p, c in d["checks"].items() if c["exit"] == 2)
        if name in OUTSIDE_STATEMENT:
            meta["outside_every_statement"] = OUTSIDE_STATEMENT[name]
        if name in STATED_BY:
            meta["stated_by"] = {"property": STATED_BY[name][0], "why": STATED_BY[name][1]}
        with open(os.path.join(dst, "meta.json"), "w") as fh:
            json.dump(meta, fh, indent=1)
        kept.append((meta["id"], caught, missed))
    for k in kept:
        print(k[0], "caught by", k[1], "| silent:", k[2])


if __name__ == "__main__":
    main()
