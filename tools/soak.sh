#!/bin/sh
# soak: every quick check on several seeds; prints one line per (check, seed)
cd /verif
for seed in ${SEEDS:-2 3 4 5}; do
  for p in ${PROPS:-C01 C02 C03 C04 C05 C06 C07 C08 C09 C10 C11 C12 C13 C14 C15 C16 C17 C18 C19}; do
    out=$(VERIF_SEED=$seed ./check $p --tier ${TIER:-quick} 2>&1); rc=$?
    echo "seed=$seed $p rc=$rc $(echo "$out" | grep -E 'HELD|VIOLATION|INCONCLUSIVE|KNOWN' | head -3 | tr '\n' ' ' | cut -c1-300)"
  done
done
